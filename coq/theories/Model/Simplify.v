(* C06 -- what the builder methods of ViewRepresentation (data_algebra/view_representations.py) RETURN for one step applied to a
   pipeline prefix, as a tree of Model/Sem.v (`op`), transcribed method by method:

     (1) is_trivial_when_intermediate_: a prefix that IS an OrderRowsNode without limit is replaced by its source before the step is
         applied (`return self.sources[0].<method>(...)`, with the arguments listed in Model/Builder.forwarded_args) -- by
         extend_parsed_, project_parsed_, select_rows(_parsed_), select_columns, drop_columns, rename_columns, map_columns,
         order_rows, natural_join (left operand only) and concat_rows (left operand only);
     (2) select_columns on a SelectColumnsNode or DropColumnsNode is applied to that node's source;
     (3) extend_parsed_ on an ExtendNode merges the two steps into one node when its window test passes (Model/MergeGuard.v) and
         try_to_merge_ops -- Gen/G_MergeOps.v, REGENERATED from data_ops_utils.py on every run -- returns merged assignments;
     (4) the "nothing to do" exits that return self (no assignments, no deletions, empty mapping, order_rows without columns and
         limit, select_columns handed exactly self.column_names AS A TUPLE -- column_names is a tuple, so a list never compares equal).

   Validation (which steps are rejected) is NOT modelled here: that is Model/Builder.v (C26).  `build_step` is what an ACCEPTED step
   returns.  `build_unsimplified` never skips, collapses or merges; `run_steps` materialises after every step.
   iw = expr_rep.fn_names_that_imply_windowed_situation, read from /repo on every run; every theorem holds for every iw.
   Modelled, not verified: this transcription (tied on every run by the tree correspondence of harness/props/C06.py). *)
From Coq Require Import List Bool Arith String.
Import ListNotations.
From DA Require Import Base.PyRT Base.Val Model.Sem Model.Extend Model.MergeGuard Gen.G_MergeOps.
Local Open Scope list_scope.

(* one builder call, after the argument normalisation of the public method:
   extend: parsed assignments, partition_by (the number 1, or a list; None = []), order_by, reverse;
   map_columns: old name -> Some new name | None (= delete);   natural_join / concat_rows: the right operand is a built pipeline *)
Inductive step :=
| SExtend (ops : list (string * expr)) (one : bool) (part order rev : list string)
| SProject (ops : list (string * expr)) (gb : list string)
| SSelectRows (e : expr)
| SSelectCols (cs : list string) (as_tuple : bool)
| SDropCols (cs : list string)
| SRename (m : list (string * string))                      (* new name -> old name *)
| SMapCols (m : list (string * option string))
| SOrder (cs rev : list string) (lim : option nat)
| SJoin (b : op) (on_a on_b : list string) (jt : jointype)
| SConcat (b : op) (idc : option string) (an bn : string).

(* self.column_names as the builders compute it: Sem.column_names except for NaturalJoinNode's "re-use column names" *)
Fixpoint declared_names (p : op) : list string :=
  match p with
  | OTable _ cs => cs
  | OExtend s ops _ _ => ext_cols (declared_names s) (map fst ops)
  | OProject _ ops gb => gb ++ map fst ops
  | OSelectRows s _ => declared_names s
  | OSelectCols _ cs => cs
  | ODropCols s ds => filter (fun c => negb (mem c ds)) (declared_names s)
  | ORename s m => map (rename_col m) (declared_names s)
  | OMapCols s m dels => filter (fun c => negb (mem c dels)) (map (rename_col m) (declared_names s))
  | OOrder s _ _ _ => declared_names s
  | OJoin a b _ _ _ =>
      let na := declared_names a in
      let nb := declared_names b in
      let all := na ++ filter (fun c => negb (mem c na)) nb in
      if subset all na then na else if subset all nb && subset nb all then nb else all
  | OConcat a _ idc _ _ => declared_names a ++ (match idc with Some c => [c] | None => [] end)
  end.

(* expr_rep.implies_windowed: some assignment is an operator application whose name implies a window *)
Definition implies (iw : list string) (ops : list (string * expr)) : bool :=
  existsb (fun ke => match snd ke with EOp o _ => mem o iw | _ => false end) ops.

(* ExtendNode.__init__: the window bookkeeping of the node (Model/MergeGuard.node_of) *)
Definition mk_extend (iw : list string) (src : op) (ops : list (string * expr)) (a : wargs) : op :=
  let n := node_of (implies iw ops) a in
  OExtend src ops (n_windowed n) (mkwin (n_part n) (n_order n) (n_rev n)).

Definition gcu : list (string * expr) -> list string := get_columns_used cols_used.

(* extend_parsed_ *)
Fixpoint build_extend (iw : list string) (p : op) (ops : list (string * expr)) (a : wargs) : op :=
  match p with
  | OOrder s _ _ None => build_extend iw s ops a                     (* forwards parsed_ops, partition_by, order_by, reverse *)
  | OExtend s ops1 wd1 w1 =>
      if merge_guard (implies iw ops) a (mkwnode wd1 (w_part w1) (w_order w1) (w_rev w1)) then
        match try_to_merge_ops gcu ops1 ops with
        | Some m => mk_extend iw s m a                               (* ExtendNode(source=self.sources[0], parsed_ops=new_ops, ...) *)
        | None => mk_extend iw p ops a
        end
      else mk_extend iw p ops a
  | _ => mk_extend iw p ops a
  end.

(* project_parsed_ *)
Fixpoint build_project (p : op) (ops : list (string * expr)) (gb : list string) : op :=
  match p with
  | OOrder s _ _ None => build_project s ops gb                      (* forwards parsed_ops, group_by *)
  | _ => OProject p ops gb
  end.

(* select_rows / select_rows_parsed_ *)
Fixpoint build_select_rows (p : op) (e : expr) : op :=
  match p with
  | OOrder s _ _ None => build_select_rows s e
  | _ => OSelectRows p e
  end.

(* SelectColumnsNode.__init__ itself steps over a SelectColumnsNode source *)
Definition mk_select (src : op) (cs : list string) : op :=
  match src with
  | OSelectCols s _ => OSelectCols s cs
  | _ => OSelectCols src cs
  end.

(* select_columns: `columns == self.column_names` first (at every level it is forwarded to), then the three forwardings *)
Fixpoint build_select_cols (p : op) (cs : list string) (as_tuple : bool) : op :=
  if as_tuple && eqb cs (declared_names p) then p
  else match p with
       | OOrder s _ _ None => build_select_cols s cs as_tuple
       | OSelectCols s _ => build_select_cols s cs as_tuple
       | ODropCols s _ => build_select_cols s cs as_tuple
       | _ => mk_select p cs
       end.

(* drop_columns *)
Fixpoint build_drop_cols (p : op) (cs : list string) : op :=
  match p with
  | OOrder s _ _ None => build_drop_cols s cs
  | _ => ODropCols p cs
  end.

(* rename_columns *)
Fixpoint build_rename (p : op) (m : list (string * string)) : op :=
  match p with
  | OOrder s _ _ None => build_rename s m
  | _ => ORename p m
  end.

(* MapColumnsNode.__init__: column_remapping without the None entries (kept as new -> old, in the mapping's order), column_deletions *)
Definition map_remap (m : list (string * option string)) : list (string * string) :=
  flat_map (fun kv => match snd kv with Some n => [(n, fst kv)] | None => [] end) m.
Definition map_dels (m : list (string * option string)) : list string :=
  flat_map (fun kv => match snd kv with Some _ => [] | None => [fst kv] end) m.
Fixpoint build_map (p : op) (m : list (string * option string)) : op :=
  match p with
  | OOrder s _ _ None => build_map s m
  | _ => OMapCols p (map_remap m) (map_dels m)
  end.

(* order_rows *)
Fixpoint build_order (p : op) (cs rev : list string) (lim : option nat) : op :=
  match p with
  | OOrder s _ _ None => build_order s cs rev lim                    (* forwards columns, reverse, limit *)
  | _ => OOrder p cs rev lim
  end.

(* natural_join: only self (the left operand) is looked at *)
Fixpoint build_join (p b : op) (on_a on_b : list string) (jt : jointype) : op :=
  match p with
  | OOrder s _ _ None => build_join s b on_a on_b jt
  | _ => OJoin p b on_a on_b jt
  end.

(* concat_rows *)
Fixpoint build_concat (p b : op) (idc : option string) (an bn : string) : op :=
  match p with
  | OOrder s _ _ None => build_concat s b idc an bn
  | _ => OConcat p b idc an bn
  end.

Definition is_nil {A} (l : list A) : bool := match l with [] => true | _ => false end.
Definition wargs_of (one : bool) (part order rev : list string) : wargs := mkwargs one part order rev.

(* the pipeline an accepted builder call returns *)
Definition build_step (iw : list string) (p : op) (x : step) : op :=
  match x with
  | SExtend ops one part order rev => if is_nil ops then p else build_extend iw p ops (wargs_of one part order rev)
  | SProject ops gb => build_project p ops gb
  | SSelectRows e => build_select_rows p e
  | SSelectCols cs tup => build_select_cols p cs tup
  | SDropCols cs => if is_nil cs then p else build_drop_cols p cs
  | SRename m => if is_nil m then p else build_rename p m
  | SMapCols m => if is_nil m then p else build_map p m
  | SOrder cs rev lim => if is_nil cs && (match lim with None => true | Some _ => false end) then p else build_order p cs rev lim
  | SJoin b on_a on_b jt => build_join p b on_a on_b jt
  | SConcat b idc an bn => build_concat p b idc an bn
  end.

(* the same call when nothing is skipped, collapsed or merged: always one new node on top of the prefix *)
Definition build_unsimplified (iw : list string) (p : op) (x : step) : op :=
  match x with
  | SExtend ops one part order rev => mk_extend iw p ops (wargs_of one part order rev)
  | SProject ops gb => OProject p ops gb
  | SSelectRows e => OSelectRows p e
  | SSelectCols cs _ => OSelectCols p cs
  | SDropCols cs => ODropCols p cs
  | SRename m => ORename p m
  | SMapCols m => OMapCols p (map_remap m) (map_dels m)
  | SOrder cs rev lim => OOrder p cs rev lim
  | SJoin b on_a on_b jt => OJoin p b on_a on_b jt
  | SConcat b idc an bn => OConcat p b idc an bn
  end.

Definition build (iw : list string) (p0 : op) (xs : list step) : op := fold_left (build_step iw) xs p0.
Definition build_plain (iw : list string) (p0 : op) (xs : list step) : op := fold_left (build_unsimplified iw) xs p0.

(* one step applied to a MATERIALISED table (the other operand of a join / concat is evaluated in the environment) *)
Definition apply_sem (iw : list string) (fl : flavor) (e : env) (x : step) (t : table) : option table :=
  match x with
  | SExtend ops one part order rev =>
      let n := node_of (implies iw ops) (wargs_of one part order rev) in
      let w := mkwin (n_part n) (n_order n) (n_rev n) in
      Some (if n_windowed n then sem_wextend fl ops w t else sem_extend fl ops t)
  | SProject ops gb => Some (sem_project fl ops gb t)
  | SSelectRows x => Some (sem_select_rows fl x t)
  | SSelectCols cs _ => Some (sem_select_cols cs t)
  | SDropCols cs => Some (sem_drop_cols cs t)
  | SRename m => Some (sem_rename m t)
  | SMapCols m => Some (sem_drop_cols (map_dels m) (sem_rename (map_remap m) t))
  | SOrder cs rev lim => Some (sem_order fl cs rev lim t)
  | SJoin b on_a on_b jt => match sem_gen fl b e with Some tb => Some (sem_join (f_join_null_match fl) on_a on_b jt t tb) | None => None end
  | SConcat b idc an bn => match sem_gen fl b e with Some tb => Some (sem_concat idc an bn t tb) | None => None end
  end.

Definition obind {A B} (o : option A) (f : A -> option B) : option B := match o with Some a => f a | None => None end.

(* apply each step in turn to the materialised result of the previous one *)
Definition run_steps (iw : list string) (fl : flavor) (e : env) (o : option table) (xs : list step) : option table :=
  fold_left (fun acc x => obind acc (apply_sem iw fl e x)) xs o.
