From Coq Require Import List Bool ZArith.
Import ListNotations.
From DA Require Import Base.PyRT Base.Cases Model.ConnComp.
(* case: (f, g, labels observed from the implementation) *)
Definition cc_case_ok (c : list Z * list Z * list Z) : bool :=
  let '(f, g, e) := c in eqb (connected_components Z.leb f g) (Some e).
Definition check_cases (cs : list (list Z * list Z * list Z)) : list nat := failing_idx cc_case_ok cs.
