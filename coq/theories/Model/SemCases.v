(* correspondence driver: Model/Sem.v evaluated on the pipelines and tables the Pandas executor ran *)
From Coq Require Import List Bool Arith ZArith QArith String.
Import ListNotations.
From DA Require Import Base.PyRT Base.Cases Base.Val Model.Sem.

(* cross-backend value equivalence with the test-suite's tolerance |a-b| <= 1e-8 * max(1,|a|,|b|) *)
Definition qabsv (x : Q) : Q := if Qle_bool 0 x then x else Qopp x.
Definition val_close (a b : val) : bool :=
  match a, b with
  | VNull, VNull => true
  | VStr x, VStr y => String.eqb x y
  | VNull, _ | _, VNull | VStr _, _ | _, VStr _ => false
  | _, _ => match num_of a, num_of b with
            | Some x, Some y =>
                let m := qmax 1 (qmax (qabsv x) (qabsv y)) in
                Qle_bool (qabsv (x - y)) (m * (1 # 100000000))
            | _, _ => false
            end
  end.
Fixpoint row_close (a b : list val) : bool :=
  match a, b with [], [] => true | x :: t, y :: u => val_close x y && row_close t u | _, _ => false end.
Fixpoint remove_first (r : list val) (l : list (list val)) : option (list (list val)) :=
  match l with [] => None | x :: t => if row_close r x then Some t else option_map (cons x) (remove_first r t) end.
Fixpoint bag_close (a b : list (list val)) : bool :=
  match a with
  | [] => match b with [] => true | _ => false end
  | r :: t => match remove_first r b with Some b' => bag_close t b' | None => false end
  end.
Fixpoint rows_close (a b : list (list val)) : bool :=
  match a, b with [], [] => true | x :: t, y :: u => row_close x y && rows_close t u | _, _ => false end.

(* compare a model table with an observed one: same column set; rows compared in the observed column order *)
Definition table_close (ordered : bool) (m o : table) : bool :=
  set_eqb (cols m) (cols o) && Nat.eqb (List.length (cols m)) (List.length (cols o)) &&
  let mr := map (fun r => map (get (cols m) r) (cols o)) (rows m) in
  if ordered then rows_close mr (rows o) else bag_close mr (rows o).

Record scase := mkcase { pipeline : op; tables : env; observed : option table; ordered : bool; colorder : bool; fl : flavor }.
Definition case_ok (c : scase) : bool :=
  match sem_gen (fl c) (pipeline c) (tables c), observed c with
  | Some m, Some o => table_close (ordered c) m o && (if colorder c then eqb (cols m) (cols o) else true)
                      && eqb (column_names (pipeline c)) (cols m)
  | None, None => true
  | _, _ => false
  end.
Definition check_cases cs : list nat := failing_idx case_ok cs.

(* helpers for writing literals *)
Definition Q2 (n : Z) (d : positive) : val := VNum (Qred (n # d)).
Definition S (s : string) : val := VStr s.
