(* Hand model of data_algebra/near_sql.py: the NearSQL object graph, as the CODE has it.

   class NearSQLTable                  -> NTable      (is_table; ops_key = table name)
   class NearSQLCommonTableExpression  -> NCte        (is_table; ops_key = the cache key built by to_with_form_stub)
   class NearSQLUnaryStep              -> NUnary      (terms, sub_sql container, suffix lines, annotation, mergeable,
                                                       declared_term_dependencies, ops_key)
   class NearSQLBinaryStep             -> NBinary     (terms, two containers, joiner, suffix (the ON lines), annotation, ops_key)
   class NearSQLRawQStep               -> NRaw0 / NRaw1  (sub_sql is None / a container; prefix, suffix, annotation, add_select)
   class NearSQLContainer              -> a pair (near_sql, cinfo) : columns narrowing, force_sql, public name

   Modelling decisions
   * `name` is quoted_query_name (the WITH list is keyed by it); query_name is copied wherever quoted_query_name is and is not
     modelled separately.  `cpub` is public_name_quoted (public_name travels with it).
   * SQL expression text, suffix lines, prefix lines are OPAQUE strings, exactly as in the code.
   * terms : None = the attribute is None;  Some l = the (insertion ordered) dict; a value None = pass the column through.
   * The generator produces a fresh object for every use of a sub-pipeline, so the graph is a tree; the in-place mutation of
     `subsql.terms` by the SQL-level extend merge is modelled by returning the changed step as a value (Model/SqlMerge.v):
     nobody else holds a reference to a freshly generated `subsql`.
   * `flags` says which of four repairs proposed by the C04 check are present in the code being modelled (the check reads
     them off the code's behaviour at run time): see Model/WithForm.v and Model/SqlMerge.v. *)
From Coq Require Import List Bool Arith String Ascii.
Import ListNotations.
From DA Require Import Base.PyRT.

Definition terms := list (string * option string).
Definition depmap := list (string * list string).

Record cinfo := mk_ci { ccols : option (list string); cforce : bool; cpub : option string }.

Inductive nearsql :=
| NTable (name : string) (tms : option terms)
| NCte (name : string) (key : option string)
| NUnary (name : string) (tms : option terms) (sub : nearsql) (ci : cinfo) (sfx : list string) (anno : option string)
         (mergeable : bool) (deps : option depmap) (okey : option string)
| NBinary (name : string) (tms : option terms) (s1 : nearsql) (c1 : cinfo) (joiner : string) (s2 : nearsql) (c2 : cinfo)
          (sfx : list string) (anno : option string) (okey : option string)
| NRaw0 (name : string) (prefix sfx : list string) (anno : option string) (add_select : bool) (okey : option string)
| NRaw1 (name : string) (prefix : list string) (sub : nearsql) (ci : cinfo) (sfx : list string) (anno : option string)
        (add_select : bool) (okey : option string).

Definition container := (nearsql * cinfo)%type.

Record flags := mk_flags {
  f_none_key_uncached : bool;     (* to_with_form_stub keeps an ops_key of None as None (never cached) instead of the text "None" *)
  f_merge_rekeys : bool;          (* a merged extend takes the ops_key of the OUTER extend instead of keeping the inner one *)
  f_merge_skips_missing : bool;   (* the merge test skips dependency entries whose term was narrowed away (no KeyError) *)
  f_union_wraps_ordered : bool    (* a UNION ALL operand that ends in ORDER BY / LIMIT is written as SELECT * FROM ( ... ) name *)
}.
Definition code_as_found := mk_flags false false false false.
Definition code_repaired := mk_flags true true true true.

Definition qname (q : nearsql) : string :=
  match q with
  | NTable n _ | NCte n _ | NUnary n _ _ _ _ _ _ _ _ | NBinary n _ _ _ _ _ _ _ _ _ | NRaw0 n _ _ _ _ _ | NRaw1 n _ _ _ _ _ _ _ => n
  end.
Definition is_table (q : nearsql) : bool :=          (* NearSQL.is_table: tables and common table expressions *)
  match q with NTable _ _ | NCte _ _ => true | _ => false end.
Definition ops_key (q : nearsql) : option string :=
  match q with
  | NTable n _ => Some n
  | NCte _ k => k
  | NUnary _ _ _ _ _ _ _ _ k | NBinary _ _ _ _ _ _ _ _ _ k | NRaw0 _ _ _ _ _ k | NRaw1 _ _ _ _ _ _ _ k => k
  end.
Definition nterms (q : nearsql) : option terms :=
  match q with
  | NTable _ t | NUnary _ t _ _ _ _ _ _ _ | NBinary _ t _ _ _ _ _ _ _ _ => t
  | _ => None
  end.

(* NearSQL.__init__ : self.terms = terms.copy() only when terms is a non-empty dict *)
Definition norm_terms (t : option terms) : option terms :=
  match t with Some [] => None | _ => t end.

(* ------------------------------------------------------------------ names *)
(* names of the steps (queries that can become common table expressions) and of the entities looked up in the database *)
Fixpoint step_names (q : nearsql) : list string :=
  match q with
  | NTable _ _ | NCte _ _ => []
  | NUnary n _ s _ _ _ _ _ _ => n :: step_names s
  | NBinary n _ s1 _ _ s2 _ _ _ _ => n :: step_names s1 ++ step_names s2
  | NRaw0 n _ _ _ _ _ => [n]
  | NRaw1 n _ s _ _ _ _ _ => n :: step_names s
  end.
Fixpoint ref_names (q : nearsql) : list string :=
  match q with
  | NTable n _ | NCte n _ => [n]
  | NUnary _ _ s _ _ _ _ _ _ => ref_names s
  | NBinary _ _ s1 _ _ s2 _ _ _ _ => ref_names s1 ++ ref_names s2
  | NRaw0 _ _ _ _ _ _ => []
  | NRaw1 _ _ s _ _ _ _ _ => ref_names s
  end.
Fixpoint terms_ok (q : nearsql) : bool :=            (* no step carries an EMPTY terms dict (the constructors normalise it to None) *)
  let ok t := match t with Some [] => false | _ => true end in
  match q with
  | NTable _ _ | NCte _ _ | NRaw0 _ _ _ _ _ _ => true
  | NUnary _ t s _ _ _ _ _ _ => ok t && terms_ok s
  | NBinary _ t s1 _ _ s2 _ _ _ _ => ok t && terms_ok s1 && terms_ok s2
  | NRaw1 _ _ s _ _ _ _ _ => terms_ok s
  end.

Fixpoint nodupb (l : list string) : bool :=
  match l with [] => true | x :: t => negb (mem x t) && nodupb t end.

(* what the generator guarantees (temp_id_source gives every step its own name, different from every table name) *)
Definition hygienic (q : nearsql) : bool :=
  nodupb (step_names q) && disjointb (step_names q) (ref_names q) && terms_ok q.

(* ------------------------------------------------------------------ abstract semantics *)
(* An SQL engine is ANY assignment of meanings that is compositional: the result of a step depends only on the step's own
   text (terms, SELECT-list narrowing, suffix lines, joiner, aliases of a join's operands, prefix lines) and on the RESULTS of
   its sub-queries; a name denotes whatever it is bound to (a base table, or the result of the common table expression of
   that name).  `SELECT * FROM name` denotes what `name` denotes (the only engine law used). *)
Section Sem.
Variable T : Type.

Record engine := mk_engine {
  e_table  : list string -> T -> T;                                  (* SELECT cols FROM <table>;  [] is "*" *)
  e_unary  : option terms -> option (list string) -> list string -> T -> T;
  e_binary : option terms -> option (list string) -> string -> list string -> option string -> option string -> T -> T -> T;
  e_raw0   : list string -> list string -> bool -> T;
  e_raw1   : list string -> list string -> bool -> T -> T
}.

Definition env := string -> T.
Definition bind (n : string) (v : T) (r : env) : env := fun m => if String.eqb m n then v else r m.

(* nearsqltable_to_sql_str_list_: columns default to the keys of terms *)
Definition table_cols (tms : option terms) (cols : option (list string)) : list string :=
  match cols with Some c => c | None => match tms with Some t => map fst t | None => [] end end.

Variable E : engine.

(* convert_subsql: a table / common table expression that is not forced is referred to by name *)
Definition by_name (s : nearsql) (ci : cinfo) : bool := is_table s && negb (cforce ci).

(* nsem r q cols = the meaning of q.to_sql_str_list(columns=cols, force_sql=True) with names bound by r *)
Fixpoint nsem (r : env) (q : nearsql) (cols : option (list string)) : T :=
  match q with
  | NTable n tms => e_table E (table_cols tms cols) (r n)
  | NCte n _ => r n
  | NUnary _ tms s ci sfx _ _ _ _ =>
      e_unary E tms cols sfx (if by_name s ci then r (qname s) else nsem r s (ccols ci))
  | NBinary _ tms s1 c1 j s2 c2 sfx _ _ =>
      e_binary E tms cols j sfx (cpub c1) (cpub c2)
        (if by_name s1 c1 then r (qname s1) else nsem r s1 (ccols c1))
        (if by_name s2 c2 then r (qname s2) else nsem r s2 (ccols c2))
  | NRaw0 _ p sfx _ a _ => e_raw0 E p sfx a
  | NRaw1 _ p s ci sfx _ a _ =>
      e_raw1 E p sfx a (if by_name s ci then r (qname s) else nsem r s (ccols ci))
  end.

Definition csem (r : env) (c : container) : T :=
  if by_name (fst c) (snd c) then r (qname (fst c)) else nsem r (fst c) (ccols (snd c)).

End Sem.
Arguments mk_engine {T}.
Arguments e_table {T}. Arguments e_unary {T}. Arguments e_binary {T}. Arguments e_raw0 {T}. Arguments e_raw1 {T}.
Arguments bind {T}. Arguments nsem {T}. Arguments csem {T}.
