(* C11 -- hand model of pipeline equality in data_algebra:
     ViewRepresentation.__eq__ / every *._equiv_nodes / TableDescription.__eq__   (view_representations.py)
     Value / ListTerm / ColumnReference / Expression .is_equal                     (expr_rep.py)
     RecordMap.__eq__ / RecordSpecification.__eq__                                 (cdata.py)
   transcribed field by field.  THE CODE AS IT IS NOW is `pipeline_eqb` (= eop_eqb q_fixed) and `expr_is_equal`
   (= is_equal q_fixed): after the commits a4bd890 (constants compared by type and value, nan = nan, list literals element
   by element), 23068d3 (order of extend/project assignments), 21fc6b8 (RecordMap blocks_out), c0b2f31 (order of rename-map
   entries) and 5631bb4 (TableDescription: name, columns, qualifiers).  The correspondence run compares `pipeline_eqb` with
   the real `==` on thousands of pairs on every run.
   The record `quirks` keeps the six comparisons the code used to forget as switches: `q_unchanged` is the code BEFORE those
   commits (kept for the record: the witnesses of the repaired defects, and theorems that hold for every combination of
   switches); a switch that is on models a regression of the corresponding fix.

   `eop` carries every field the node classes store and that results or SQL depend on.  Conventions of the converter
   (harness/props/C11.py): the qualifiers dict (looked up by key only) is given sorted by key, so Python's unordered dict ==
   is list equality; `ops` of extend/project and the rename maps keep the dict order (it decides the order of new columns
   and of the SELECT list); floats are Qred-normal fractions; control-table cells are constants
   (RecordSpecification.__eq__ compares repr text, which is injective on them).
   Not modelled (converter refuses, the oracle still runs): DictTerm (mapv), Expression.params (never set by the builders),
   SQLNode, NaN inside list literals, rename maps with repeated source columns. *)
From Coq Require Import List Bool Arith ZArith QArith String.
Import ListNotations.
From DA Require Import Base.PyRT Base.Val Model.Sem.
Local Open Scope string_scope.
Local Open Scope list_scope.

(* ------------------------------------------------------------------ what the code used to forget (all off = the code now) *)
Record quirks := mkq {
  q_table_key_only : bool;      (* TableDescription.__eq__ compares only the key (= table name): columns and qualifiers are ignored *)
  q_ops_unordered : bool;       (* ExtendNode/ProjectNode._equiv_nodes compare the assignment dict as an unordered mapping *)
  q_const_py_eq : bool;         (* Value.is_equal is Python ==: True = 1 = 1.0, and nan <> nan *)
  q_list_len_only : bool;       (* ListTerm.is_equal is list == over Value objects; Value.__eq__ builds a (truthy) expression,
                                   so parsed list literals of equal length always compare equal *)
  q_recmap_out_skipped : bool;  (* RecordMap.__eq__ compares blocks_out only when blocks_in is not None *)
  q_maps_unordered : bool       (* RenameColumnsNode/MapColumnsNode._equiv_nodes compare column_remapping with dict ==, i.e.
                                   unordered, although SQL generation prints the renamed columns in the dict's order *)
}.
Definition q_unchanged := mkq true true true true true true.
Definition q_fixed := mkq false false false false false false.

(* ------------------------------------------------------------------ constants and expressions *)
Inductive pyconst := KNone | KBool (b : bool) | KInt (z : Z) | KFloat (q : Q) | KNaN | KStr (s : string).

#[global] Instance pyconst_EqDec : EqDec pyconst.
Proof. intros x y. destruct x, y; try (right; congruence); try (left; reflexivity).
  - destruct (eq_dec b b0); [left|right]; congruence.
  - destruct (eq_dec z z0); [left|right]; congruence.
  - destruct (eq_dec q q0); [left|right]; congruence.
  - destruct (eq_dec s s0); [left|right]; congruence. Defined.

Definition knum (k : pyconst) : option Q :=
  match k with KBool b => Some (if b then 1%Q else 0%Q) | KInt z => Some (inject_Z z) | KFloat q => Some q | _ => None end.
(* Python == on constants *)
Definition py_eq (a b : pyconst) : bool :=
  match a, b with
  | KNone, KNone => true
  | KStr x, KStr y => String.eqb x y
  | KNaN, _ | _, KNaN => false
  | _, _ => match knum a, knum b with Some x, Some y => Qeq_bool x y | _, _ => false end
  end.
(* Value.is_equal: `self.value == other.value`; repaired: same type and same value, nan matching nan *)
Definition const_eq (q : quirks) (a b : pyconst) : bool := if q_const_py_eq q then py_eq a b else eqb a b.

Inductive pexpr :=
  | PCol (c : string)                                           (* ColumnReference *)
  | PVal (k : pyconst)                                          (* Value *)
  | PList (wrapped : bool) (items : list pyconst)               (* ListTerm; wrapped = the elements are Value objects (parser) *)
  | POp (op : string) (inline method : bool) (args : list pexpr). (* Expression (params is always None) *)

Fixpoint list_eqb {A} (f : A -> A -> bool) (l1 l2 : list A) : bool :=
  match l1, l2 with [], [] => true | x :: t, y :: u => f x y && list_eqb f t u | _, _ => false end.

Fixpoint is_equal (q : quirks) (a b : pexpr) {struct a} : bool :=
  match a, b with
  | PCol x, PCol y => String.eqb x y
  | PVal x, PVal y => const_eq q x y
  | PList wa xs, PList wb ys =>
      if q_list_len_only q then
        (if wa || wb then Nat.eqb (List.length xs) (List.length ys)    (* some element is a Value: its == is truthy *)
         else list_eqb py_eq xs ys)                                     (* raw Python values: list == *)
      else list_eqb eqb xs ys                                           (* repaired: element-wise, typed *)
  | POp o i _ xs, POp o' i' _ ys =>                                     (* `method` is not compared *)
      String.eqb o o' && Bool.eqb i i' &&
      (fix go (l1 l2 : list pexpr) {struct l1} : bool :=
         match l1, l2 with
         | [], [] => true
         | x :: t, y :: u => is_equal q x y && go t u
         | _, _ => false
         end) xs ys
  | _, _ => false
  end.

(* ------------------------------------------------------------------ record maps *)
Record recspec := mkrs {
  rs_record_keys : list string;
  rs_control : list (string * list pyconst);      (* control table, column by column *)
  rs_control_keys : list string;
  rs_strict : bool }.
Record recmap := mkrm { rm_in : option recspec; rm_out : option recspec; rm_strict : bool }.

#[global] Instance recspec_EqDec : EqDec recspec.
Proof. intros [a b c d] [a' b' c' d'].
  destruct (eq_dec a a'); [|right; congruence]. destruct (eq_dec b b'); [|right; congruence].
  destruct (eq_dec c c'); [|right; congruence]. destruct (eq_dec d d'); [left|right]; congruence. Defined.

(* RecordSpecification.__eq__: equality of repr = record_keys, control table, control_table_keys, strict *)
Definition recspec_eqb (a b : recspec) : bool := eqb a b.
Definition is_none {A} (o : option A) : bool := match o with None => true | Some _ => false end.
Definition opt_recspec_eqb (a b : option recspec) : bool :=
  match a, b with None, None => true | Some x, Some y => recspec_eqb x y | _, _ => false end.
(* RecordMap.__eq__ (strict is never compared) *)
Definition recmap_eqb (q : quirks) (a b : recmap) : bool :=
  Bool.eqb (is_none (rm_in a)) (is_none (rm_in b)) &&
  Bool.eqb (is_none (rm_out a)) (is_none (rm_out b)) &&
  (match rm_in a with Some _ => opt_recspec_eqb (rm_in a) (rm_in b) | None => true end) &&
  (match rm_in a with
   | Some _ => opt_recspec_eqb (rm_out a) (rm_out b)
   | None => if q_recmap_out_skipped q then true else opt_recspec_eqb (rm_out a) (rm_out b)
   end).

Definition const_str (k : pyconst) : string := match k with KStr s => s | _ => "" end.
Definition rs_control_cols (r : recspec) : list string := map fst (rs_control r).
Definition rs_block_columns (r : recspec) : list string := rs_record_keys r ++ rs_control_cols r.
Definition rs_content_keys (r : recspec) : list string :=
  let cvs := flat_map (fun cc => if mem (fst cc) (rs_control_keys r) then [] else map const_str (snd cc)) (rs_control r) in
  if rs_strict r then cvs else py_set cvs.
Definition rs_row_columns (r : recspec) : list string := rs_record_keys r ++ rs_content_keys r.
Definition rm_columns_produced (m : recmap) : list string :=
  match rm_out m, rm_in m with
  | Some o, _ => rs_block_columns o
  | None, Some i => rs_row_columns i
  | None, None => []
  end.

(* ------------------------------------------------------------------ operator trees *)
Inductive eop :=
  | ETable (name : string) (tcols : list string) (quals : list (string * string))
  | EExtend (src : eop) (ops : list (string * pexpr)) (part order rev : list string) (windowed : bool)
  | EProject (src : eop) (ops : list (string * pexpr)) (gb : list string)
  | ESelectRows (src : eop) (e : pexpr)
  | ESelectCols (src : eop) (cs : list string)
  | EDropCols (src : eop) (cs : list string)
  | ERename (src : eop) (m : list (string * string))                        (* column_remapping: NEW -> OLD *)
  | EMapCols (src : eop) (m : list (string * string)) (dels : list string)   (* column_remapping: OLD -> NEW; column_deletions *)
  | EOrder (src : eop) (cs rev : list string) (limit : option nat)
  | EJoin (a b : eop) (on_a on_b : list string) (jt : string)
  | EConcat (a b : eop) (idcol : option string) (an bn : string)
  | EConvert (src : eop) (rm : recmap).

Definition swap_pair (p : string * string) : string * string := (snd p, fst p).
(* NaturalJoinNode.__init__: a's columns, then b's new ones; b's own tuple is re-used when it has the same column set *)
Definition join_cols (ca cb : list string) : list string :=
  let computed := ca ++ filter (fun c => negb (mem c ca)) cb in
  if set_eqb computed ca then ca else if set_eqb computed cb then cb else computed.

(* column_names as the node constructors compute them *)
Fixpoint ecolumn_names (p : eop) : list string :=
  match p with
  | ETable _ cs _ => cs
  | EExtend s ops _ _ _ _ => ext_cols (ecolumn_names s) (map fst ops)
  | EProject _ ops gb => gb ++ filter (fun k => negb (mem k gb)) (map fst ops)
  | ESelectRows s _ => ecolumn_names s
  | ESelectCols _ cs => cs
  | EDropCols s ds => filter (fun c => negb (mem c ds)) (ecolumn_names s)
  | ERename s m => map (rename_col m) (ecolumn_names s)
  | EMapCols s m dels => map (rename_col (map swap_pair m)) (filter (fun c => negb (mem c dels)) (ecolumn_names s))
  | EOrder s _ _ _ => ecolumn_names s
  | EJoin a b _ _ _ => join_cols (ecolumn_names a) (ecolumn_names b)
  | EConcat a _ idc _ _ => ecolumn_names a ++ (match idc with Some c => [c] | None => [] end)
  | EConvert _ rm => rm_columns_produced rm
  end.

(* ExtendNode / ProjectNode._equiv_nodes on the assignment dicts:
     if set(self.ops.keys()) != set(other.ops.keys()): return False
     for k in self.ops.keys(): if not self.ops[k].is_equal(other.ops[k]): return False
   repaired: the key LISTS are compared *)
Definition ops_eq (q : quirks) (o1 o2 : list (string * pexpr)) : bool :=
  (if q_ops_unordered q then set_eqb (map fst o1) (map fst o2) else eqb (map fst o1) (map fst o2)) &&
  forallb (fun k => match dict_get o1 k, dict_get o2 k with Some e1, Some e2 => is_equal q e1 e2 | _, _ => false end) (map fst o1).

(* RenameColumnsNode / MapColumnsNode._equiv_nodes: `self.column_remapping == other.column_remapping` (dict ==: same keys,
   same value under every key); repaired: the item LISTS are compared *)
Definition smap_eq (q : quirks) (m1 m2 : list (string * string)) : bool :=
  if q_maps_unordered q then
    set_eqb (map fst m1) (map fst m2) && forallb (fun k => eqb (dict_get m1 k) (dict_get m2 k)) (map fst m1)
  else eqb m1 m2.

(* ViewRepresentation.__eq__: same class, column_names, number of sources, _equiv_nodes, then the sources with THEIR __eq__
   (TableDescription overrides __eq__: only the key) *)
Fixpoint eop_eqb (q : quirks) (a b : eop) {struct a} : bool :=
  match a, b with
  | ETable n cs ql, ETable n' cs' ql' =>
      if q_table_key_only q then String.eqb n n'
      else String.eqb n n' && eqb cs cs' && eqb ql ql'
  | EExtend s ops p o r w, EExtend s' ops' p' o' r' w' =>
      eqb (ecolumn_names a) (ecolumn_names b) &&
      (Bool.eqb w w' && eqb p p' && eqb o o' && eqb r r' && ops_eq q ops ops') && eop_eqb q s s'
  | EProject s ops gb, EProject s' ops' gb' =>
      eqb (ecolumn_names a) (ecolumn_names b) && (eqb gb gb' && ops_eq q ops ops') && eop_eqb q s s'
  | ESelectRows s e, ESelectRows s' e' =>
      eqb (ecolumn_names a) (ecolumn_names b) && is_equal q e e' && eop_eqb q s s'
  | ESelectCols s cs, ESelectCols s' cs' =>
      eqb (ecolumn_names a) (ecolumn_names b) && eqb cs cs' && eop_eqb q s s'
  | EDropCols s cs, EDropCols s' cs' =>
      eqb (ecolumn_names a) (ecolumn_names b) && eqb cs cs' && eop_eqb q s s'
  | ERename s m, ERename s' m' =>
      eqb (ecolumn_names a) (ecolumn_names b) && smap_eq q m m' && eop_eqb q s s'
  | EMapCols s m d, EMapCols s' m' d' =>
      eqb (ecolumn_names a) (ecolumn_names b) && (smap_eq q m m' && eqb d d') && eop_eqb q s s'
  | EOrder s cs r l, EOrder s' cs' r' l' =>
      eqb (ecolumn_names a) (ecolumn_names b) && (eqb cs cs' && eqb r r' && eqb l l') && eop_eqb q s s'
  | EJoin x y oa ob jt, EJoin x' y' oa' ob' jt' =>
      eqb (ecolumn_names a) (ecolumn_names b) && (eqb oa oa' && eqb ob ob' && String.eqb jt jt') &&
      eop_eqb q x x' && eop_eqb q y y'
  | EConcat x y ic an bn, EConcat x' y' ic' an' bn' =>
      eqb (ecolumn_names a) (ecolumn_names b) && (eqb ic ic' && String.eqb an an' && String.eqb bn bn') &&
      eop_eqb q x x' && eop_eqb q y y'
  | EConvert s rm, EConvert s' rm' =>
      eqb (ecolumn_names a) (ecolumn_names b) && recmap_eqb q rm rm' && eop_eqb q s s'
  | _, _ => false
  end.

(* the code as it is now: nothing forgotten *)
Definition expr_is_equal : pexpr -> pexpr -> bool := is_equal q_fixed.
Definition pipeline_eqb : eop -> eop -> bool := eop_eqb q_fixed.

(* ------------------------------------------------------------------ the part of a tree that results and SQL read *)
(* erased: Expression.method (only printing to Python source reads it), how a list literal's elements are boxed,
   RecordMap.strict (read by the constructor, compose and inverse only) *)
Fixpoint core_expr (e : pexpr) : pexpr :=
  match e with
  | PCol c => PCol c
  | PVal k => PVal k
  | PList _ xs => PList false xs
  | POp o i _ args => POp o i false (map core_expr args)
  end.
Definition core_ops (ops : list (string * pexpr)) : list (string * pexpr) := map (fun ke => (fst ke, core_expr (snd ke))) ops.
Definition core_recmap (m : recmap) : recmap := mkrm (rm_in m) (rm_out m) true.
Fixpoint core (p : eop) : eop :=
  match p with
  | ETable n cs ql => ETable n cs ql
  | EExtend s ops pt o r w => EExtend (core s) (core_ops ops) pt o r w
  | EProject s ops gb => EProject (core s) (core_ops ops) gb
  | ESelectRows s e => ESelectRows (core s) (core_expr e)
  | ESelectCols s cs => ESelectCols (core s) cs
  | EDropCols s cs => EDropCols (core s) cs
  | ERename s m => ERename (core s) m
  | EMapCols s m d => EMapCols (core s) m d
  | EOrder s cs r l => EOrder (core s) cs r l
  | EJoin x y oa ob jt => EJoin (core x) (core y) oa ob jt
  | EConcat x y ic an bn => EConcat (core x) (core y) ic an bn
  | EConvert s rm => EConvert (core s) (core_recmap rm)
  end.

(* dict invariant: assignment keys and rename-map keys are unique *)
Fixpoint nodupb {A} `{EqDec A} (l : list A) : bool := match l with [] => true | x :: t => negb (mem x t) && nodupb t end.
Fixpoint wfb (p : eop) : bool :=
  match p with
  | ETable _ _ _ => true
  | EExtend s ops _ _ _ _ | EProject s ops _ => nodupb (map fst ops) && wfb s
  | ERename s m | EMapCols s m _ => nodupb (map fst m) && wfb s
  | ESelectRows s _ | ESelectCols s _ | EDropCols s _ | EOrder s _ _ _ | EConvert s _ => wfb s
  | EJoin x y _ _ _ | EConcat x y _ _ _ => wfb x && wfb y
  end.

(* no nan constant anywhere (reflexivity of the unrepaired Value.is_equal needs it) *)
Definition const_nan_free (k : pyconst) : bool := match k with KNaN => false | _ => true end.
Fixpoint expr_nan_free (e : pexpr) : bool :=
  match e with
  | PCol _ => true
  | PVal k => const_nan_free k
  | PList _ xs => forallb const_nan_free xs
  | POp _ _ _ args => forallb expr_nan_free args
  end.
Fixpoint nan_free (p : eop) : bool :=
  match p with
  | ETable _ _ _ => true
  | EExtend s ops _ _ _ _ | EProject s ops _ => forallb (fun ke => expr_nan_free (snd ke)) ops && nan_free s
  | ESelectRows s e => expr_nan_free e && nan_free s
  | ESelectCols s _ | EDropCols s _ | ERename s _ | EMapCols s _ _ | EOrder s _ _ _ | EConvert s _ => nan_free s
  | EJoin x y _ _ _ | EConcat x y _ _ _ => nan_free x && nan_free y
  end.

(* ------------------------------------------------------------------ guards = the forgotten fields agree *)
(* agree q a b: walking two trees of the same shape in parallel, every field that the code (with flags q) does NOT compare
   is equal.  With q_fixed nothing is forgotten and agree is constantly true. *)
Fixpoint agree_expr (q : quirks) (a b : pexpr) {struct a} : bool :=
  match a, b with
  | PVal x, PVal y => if q_const_py_eq q then eqb x y else true
  | PList _ xs, PList _ ys => if q_list_len_only q then eqb xs ys else true
  | POp _ _ _ xs, POp _ _ _ ys =>
      (fix go (l1 l2 : list pexpr) {struct l1} : bool :=
         match l1, l2 with
         | x :: t, y :: u => agree_expr q x y && go t u
         | _, _ => true
         end) xs ys
  | _, _ => true
  end.
Definition agree_ops (q : quirks) (o1 o2 : list (string * pexpr)) : bool :=
  (if q_ops_unordered q then eqb (map fst o1) (map fst o2) else true) &&
  forallb (fun k => match dict_get o1 k, dict_get o2 k with Some e1, Some e2 => agree_expr q e1 e2 | _, _ => true end) (map fst o1).
Definition agree_recmap (q : quirks) (a b : recmap) : bool :=
  if q_recmap_out_skipped q then (match rm_in a with None => eqb (rm_out a) (rm_out b) | Some _ => true end) else true.
Fixpoint agree (q : quirks) (a b : eop) {struct a} : bool :=
  match a, b with
  | ETable _ cs ql, ETable _ cs' ql' => if q_table_key_only q then eqb cs cs' && eqb ql ql' else true
  | EExtend s ops _ _ _ _, EExtend s' ops' _ _ _ _ => agree_ops q ops ops' && agree q s s'
  | EProject s ops _, EProject s' ops' _ => agree_ops q ops ops' && agree q s s'
  | ESelectRows s e, ESelectRows s' e' => agree_expr q e e' && agree q s s'
  | ERename s m, ERename s' m' | EMapCols s m _, EMapCols s' m' _ => (if q_maps_unordered q then eqb m m' else true) && agree q s s'
  | ESelectCols s _, ESelectCols s' _ | EDropCols s _, EDropCols s' _ | EOrder s _ _ _, EOrder s' _ _ _ => agree q s s'
  | EJoin x y _ _ _, EJoin x' y' _ _ _ | EConcat x y _ _ _, EConcat x' y' _ _ _ => agree q x x' && agree q y y'
  | EConvert s rm, EConvert s' rm' => agree_recmap q rm rm' && agree q s s'
  | _, _ => true
  end.

(* the two guards that RESULTS need (the order of the assignments is not among them):
   same-named tables list the same columns, and no constant pair conflates a bool with a number *)
Definition is_kbool (k : pyconst) : bool := match k with KBool _ => true | _ => false end.
Fixpoint ragree_expr (q : quirks) (a b : pexpr) {struct a} : bool :=
  match a, b with
  | PVal x, PVal y => if q_const_py_eq q then Bool.eqb (is_kbool x) (is_kbool y) else true
  | POp _ _ _ xs, POp _ _ _ ys =>
      (fix go (l1 l2 : list pexpr) {struct l1} : bool :=
         match l1, l2 with
         | x :: t, y :: u => ragree_expr q x y && go t u
         | _, _ => true
         end) xs ys
  | _, _ => true
  end.
Definition ragree_ops (q : quirks) (o1 o2 : list (string * pexpr)) : bool :=
  forallb (fun k => match dict_get o1 k, dict_get o2 k with Some e1, Some e2 => ragree_expr q e1 e2 | _, _ => true end) (map fst o1).
Fixpoint ragree (q : quirks) (a b : eop) {struct a} : bool :=
  match a, b with
  | ETable _ cs _, ETable _ cs' _ => if q_table_key_only q then eqb cs cs' else true
  | EExtend s ops _ _ _ _, EExtend s' ops' _ _ _ _ => ragree_ops q ops ops' && ragree q s s'
  | EProject s ops _, EProject s' ops' _ => ragree_ops q ops ops' && ragree q s s'
  | ESelectRows s e, ESelectRows s' e' => ragree_expr q e e' && ragree q s s'
  | ESelectCols s _, ESelectCols s' _ | EDropCols s _, EDropCols s' _ | ERename s _, ERename s' _
  | EMapCols s _ _, EMapCols s' _ _ | EOrder s _ _ _, EOrder s' _ _ _ | EConvert s _, EConvert s' _ => ragree q s s'
  | EJoin x y _ _ _, EJoin x' y' _ _ _ | EConcat x y _ _ _, EConcat x' y' _ _ _ => ragree q x x' && ragree q y y'
  | _, _ => true
  end.

(* ------------------------------------------------------------------ forgetful map into the reference semantics (Model/Sem.v) *)
Definition val_of (k : pyconst) : val :=
  match k with
  | KNone | KNaN => VNull
  | KBool b => VBool b
  | KInt z => VNum (Qred (inject_Z z))
  | KFloat q => VNum (Qred q)
  | KStr s => VStr s
  end.
(* list literals (is_in) have no counterpart in Sem.v: None *)
Fixpoint expr_sem (e : pexpr) : option expr :=
  match e with
  | PCol c => Some (ECol c)
  | PVal k => Some (EConst (val_of k))
  | PList _ _ => None
  | POp o _ _ args =>
      option_map (EOp o)
        ((fix go (l : list pexpr) : option (list expr) :=
            match l with
            | [] => Some []
            | x :: t => match expr_sem x, go t with Some x', Some t' => Some (x' :: t') | _, _ => None end
            end) args)
  end.
Fixpoint ops_sem (ops : list (string * pexpr)) : option (list (string * expr)) :=
  match ops with
  | [] => Some []
  | (k, e) :: t => match expr_sem e, ops_sem t with Some e', Some t' => Some ((k, e') :: t') | _, _ => None end
  end.
Definition jt_sem (s : string) : option jointype :=
  if String.eqb s "INNER" then Some JInner else if String.eqb s "LEFT" then Some JLeft
  else if String.eqb s "RIGHT" then Some JRight else if String.eqb s "FULL" then Some JFull else None.

(* convert_records, list literals, unknown join types, projects that assign a grouping column and rename maps with a
   repeated source column have no image (None).  A join whose declared column tuple is b's (see join_cols) is followed by
   the matching column selection, so that the image always has the declared column order. *)
Fixpoint to_sem (p : eop) : option op :=
  match p with
  | ETable n cs _ => Some (OTable n cs)
  | EExtend s ops pt o r w =>
      match to_sem s, ops_sem ops with Some s', Some ops' => Some (OExtend s' ops' w (mkwin pt o r)) | _, _ => None end
  | EProject s ops gb =>
      if disjointb (map fst ops) gb then
        match to_sem s, ops_sem ops with Some s', Some ops' => Some (OProject s' ops' gb) | _, _ => None end
      else None
  | ESelectRows s e => match to_sem s, expr_sem e with Some s', Some e' => Some (OSelectRows s' e') | _, _ => None end
  | ESelectCols s cs => option_map (fun s' => OSelectCols s' cs) (to_sem s)
  | EDropCols s cs => option_map (fun s' => ODropCols s' cs) (to_sem s)
  | ERename s m => if nodupb (map snd m) then option_map (fun s' => ORename s' m) (to_sem s) else None
  | EMapCols s m dels =>
      if nodupb (map fst m) then option_map (fun s' => ORename (ODropCols s' dels) (map swap_pair m)) (to_sem s) else None
  | EOrder s cs r l => option_map (fun s' => OOrder s' cs r l) (to_sem s)
  | EJoin x y oa ob jt =>
      match to_sem x, to_sem y, jt_sem jt with
      | Some x', Some y', Some j =>
          let ca := ecolumn_names x in let cb := ecolumn_names y in
          if eqb (join_cols ca cb) (ca ++ filter (fun c => negb (mem c ca)) cb) then Some (OJoin x' y' oa ob j)
          else Some (OSelectCols (OJoin x' y' oa ob j) (join_cols ca cb))
      | _, _, _ => None
      end
  | EConcat x y ic an bn =>
      match to_sem x, to_sem y with Some x', Some y' => Some (OConcat x' y' ic an bn) | _, _ => None end
  | EConvert _ _ => None
  end.
