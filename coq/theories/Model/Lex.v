(* Hand-written SQL lexing rules for the pieces of text data_algebra splices into queries:
   string literals, quoted identifiers and `--` comments.
   Std family (SQLite, PostgreSQL with standard_conforming_strings): inside a literal only the doubled quote is special.
   Backslash family (MySQL default mode, BigQuery, Spark SQL): a backslash escapes the next character.
   These rules are written from the engines' documentation (only SQLite is available in the sandbox). *)
From Coq Require Import List Bool Arith Ascii String.
Import ListNotations.
Local Open Scope string_scope.

(* body of a literal after the opening quote q: returns (value, text after the closing quote) *)
Fixpoint lit_body_std (q : ascii) (s : string) : option (string * string) :=
  match s with
  | EmptyString => None                                              (* unterminated *)
  | String c s' =>
      if Ascii.eqb c q then
        match s' with
        | String c2 s'' => if Ascii.eqb c2 q
                           then option_map (fun r => (String q (fst r), snd r)) (lit_body_std q s'')    (* doubled quote *)
                           else Some (EmptyString, s')
        | EmptyString => Some (EmptyString, EmptyString)
        end
      else option_map (fun r => (String c (fst r), snd r)) (lit_body_std q s')
  end.
Definition read_literal_std (q : ascii) (s : string) : option (string * string) :=
  match s with String c s' => if Ascii.eqb c q then lit_body_std q s' else None | EmptyString => None end.

(* backslash family: `\` + c is one escaped character (its value is irrelevant here), a doubled quote is one quote *)
Fixpoint lit_body_bs (q : ascii) (s : string) : option (string * string) :=
  match s with
  | EmptyString => None
  | String c s' =>
      if Ascii.eqb c "\"%char then
        match s' with
        | String c2 s'' => option_map (fun r => (String c2 (fst r), snd r)) (lit_body_bs q s'')
        | EmptyString => None
        end
      else if Ascii.eqb c q then
        match s' with
        | String c2 s'' => if Ascii.eqb c2 q
                           then option_map (fun r => (String q (fst r), snd r)) (lit_body_bs q s'')
                           else Some (EmptyString, s')
        | EmptyString => Some (EmptyString, EmptyString)
        end
      else option_map (fun r => (String c (fst r), snd r)) (lit_body_bs q s')
  end.
Definition read_literal_bs (q : ascii) (s : string) : option (string * string) :=
  match s with String c s' => if Ascii.eqb c q then lit_body_bs q s' else None | EmptyString => None end.

(* quoted identifier: everything up to the next quote character (data_algebra never emits a doubled identifier quote) *)
Fixpoint ident_body (q : ascii) (s : string) : option (string * string) :=
  match s with
  | EmptyString => None
  | String c s' => if Ascii.eqb c q then Some (EmptyString, s')
                   else option_map (fun r => (String c (fst r), snd r)) (ident_body q s')
  end.
Definition read_ident (q : ascii) (s : string) : option (string * string) :=
  match s with String c s' => if Ascii.eqb c q then ident_body q s' else None | EmptyString => None end.

(* a `--` comment runs to the end of the line (LF; PostgreSQL and MySQL also end it at CR) *)
Definition is_eol (c : ascii) : bool := Ascii.eqb c "010"%char || Ascii.eqb c "013"%char.
Fixpoint skip_line (s : string) : string :=
  match s with EmptyString => EmptyString | String c s' => if is_eol c then s' else skip_line s' end.
Definition skip_comment (s : string) : option string :=
  match s with String "-" (String "-" s') => Some (skip_line s') | _ => None end.

Fixpoint has_char (p : ascii -> bool) (s : string) : bool :=
  match s with EmptyString => false | String c s' => p c || has_char p s' end.
Definition starts_with_char (q : ascii) (s : string) : bool :=
  match s with String c _ => Ascii.eqb c q | EmptyString => false end.
Definition q1 (q : ascii) : string := String q EmptyString.

(* ------------------------------------------------------------------------------------------------------------------ *)
(* Numeric, NULL and boolean literal tokens (the same in all five dialects).
   unsigned numeric literal:  digit+ [ "." digit+ ] [ ("e"|"E") ["+"|"-"] digit+ ]
   A leading "-" is the unary minus applied to the literal; `read_number` reads it with the literal ("signed literal").
   Keywords NULL / TRUE / FALSE are read as the maximal run of word characters. *)
From Coq Require Import ZArith.

Inductive digit := d0 | d1 | d2 | d3 | d4 | d5 | d6 | d7 | d8 | d9.
Definition digit_char (d : digit) : ascii :=
  match d with d0 => "0" | d1 => "1" | d2 => "2" | d3 => "3" | d4 => "4" | d5 => "5" | d6 => "6" | d7 => "7" | d8 => "8" | d9 => "9" end%char.
Definition char_digit (c : ascii) : option digit :=
  match c with
  | "0" => Some d0 | "1" => Some d1 | "2" => Some d2 | "3" => Some d3 | "4" => Some d4
  | "5" => Some d5 | "6" => Some d6 | "7" => Some d7 | "8" => Some d8 | "9" => Some d9 | _ => None
  end%char.
Definition digit_val (d : digit) : Z :=
  match d with d0 => 0 | d1 => 1 | d2 => 2 | d3 => 3 | d4 => 4 | d5 => 5 | d6 => 6 | d7 => 7 | d8 => 8 | d9 => 9 end%Z.
Fixpoint dstr (ds : list digit) : string :=
  match ds with [] => EmptyString | d :: ds' => String (digit_char d) (dstr ds') end.
(* value of a digit sequence, most significant first *)
Fixpoint dval_acc (ds : list digit) (acc : Z) : Z :=
  match ds with [] => acc | d :: ds' => dval_acc ds' (10 * acc + digit_val d)%Z end.
Definition dval (ds : list digit) : Z := dval_acc ds 0%Z.

(* maximal run of digits *)
Fixpoint read_digits (s : string) : list digit * string :=
  match s with
  | EmptyString => ([], EmptyString)
  | String c s' => match char_digit c with
                   | Some d => let r := read_digits s' in (d :: fst r, snd r)
                   | None => ([], s)
                   end
  end.

(* a numeric token: sign, integer part, optional fraction, optional exponent.  It denotes  (+/-) mant * 10^exp10 *)
Record numtok := mk_numtok { nt_neg : bool; nt_ip : list digit; nt_fp : option (list digit); nt_ex : option Z }.
Definition nt_mant (t : numtok) : Z := dval (nt_ip t ++ match nt_fp t with Some f => f | None => [] end).
Definition nt_exp10 (t : numtok) : Z :=
  (match nt_ex t with Some e => e | None => 0 end - Z.of_nat (List.length (match nt_fp t with Some f => f | None => [] end)))%Z.
Definition nt_is_integer (t : numtok) : bool :=
  match nt_fp t, nt_ex t with None, None => true | _, _ => false end.

Definition read_fraction (s : string) : option (list digit) * string :=
  match s with
  | String "." s' => match read_digits s' with
                     | ([], _) => (None, s)                (* "1." followed by a non-digit: the dot is not part of the literal *)
                     | (f, r) => (Some f, r)
                     end
  | _ => (None, s)
  end.
Definition read_exponent (s : string) : option Z * string :=
  match s with
  | String c s' =>
      if Ascii.eqb c "e" || Ascii.eqb c "E" then
        match s' with
        | String "+" s'' => match read_digits s'' with ([], _) => (None, s) | (e, r) => (Some (dval e), r) end
        | String "-" s'' => match read_digits s'' with ([], _) => (None, s) | (e, r) => (Some (- dval e)%Z, r) end
        | _ => match read_digits s' with ([], _) => (None, s) | (e, r) => (Some (dval e), r) end
        end
      else (None, s)
  | EmptyString => (None, s)
  end.
Definition read_unsigned (neg : bool) (s : string) : option (numtok * string) :=
  match read_digits s with
  | ([], _) => None
  | (ip, r1) => let (fp, r2) := read_fraction r1 in
                let (ex, r3) := read_exponent r2 in
                Some (mk_numtok neg ip fp ex, r3)
  end.
Definition read_number (s : string) : option (numtok * string) :=
  match s with
  | String "-" s' => read_unsigned true s'
  | _ => read_unsigned false s
  end.

(* word characters: a token made of them ends only at a character that is not one (maximal munch) *)
Definition is_word_char (c : ascii) : bool :=
  let n := nat_of_ascii c in
  (Nat.leb 48 n && Nat.leb n 57) || (Nat.leb 65 n && Nat.leb n 90) || (Nat.leb 97 n && Nat.leb n 122)
  || Nat.eqb n 95 || Nat.eqb n 46 || Nat.leb 128 n.
Definition ends_token (rest : string) : bool :=
  match rest with EmptyString => true | String c _ => negb (is_word_char c) end.
Fixpoint read_word (s : string) : string * string :=
  match s with
  | EmptyString => (EmptyString, EmptyString)
  | String c s' => if is_word_char c then let r := read_word s' in (String c (fst r), snd r) else (EmptyString, s)
  end.

(* a literal VALUE token of the dialect: NULL, TRUE, FALSE, a signed numeric literal or a string literal *)
Inductive family := Std | Backslash.
Inductive sqlval := SNull | SBool (b : bool) | SNum (t : numtok) | SStr (s : string).
Definition read_string_lit (fam : family) (q : ascii) (s : string) : option (string * string) :=
  match fam with Std => read_literal_std q s | Backslash => read_literal_bs q s end.
Definition read_value (fam : family) (q : ascii) (s : string) : option (sqlval * string) :=
  match s with
  | EmptyString => None
  | String c _ =>
      if Ascii.eqb c q then option_map (fun r => (SStr (fst r), snd r)) (read_string_lit fam q s)
      else if Ascii.eqb c "-" || match char_digit c with Some _ => true | None => false end then
        match read_number s with
        | Some (t, r) => if ends_token r then Some (SNum t, r) else None        (* "12abc" is not a literal *)
        | None => None
        end
      else
        let (w, r) := read_word s in
        if String.eqb w "NULL" then Some (SNull, r)
        else if String.eqb w "TRUE" then Some (SBool true, r)
        else if String.eqb w "FALSE" then Some (SBool false, r)
        else None
  end.
