(* Hand-written SQL lexing rules for the pieces of text data_algebra splices into queries:
   string literals, quoted identifiers and `--` comments.
   Std family (SQLite, PostgreSQL with standard_conforming_strings): inside a literal only the doubled quote is special.
   Backslash family (MySQL default mode, BigQuery, Spark SQL): a backslash escapes the next character.
   These rules are written from the engines' documentation (only SQLite is available in the sandbox). *)
From Coq Require Import List Bool Arith Ascii String.
Import ListNotations.
Local Open Scope string_scope.

(* body of a literal after the opening quote q: returns (value, text after the closing quote) *)
Fixpoint lit_body_std (q : ascii) (s : string) : option (string * string) :=
  match s with
  | EmptyString => None                                              (* unterminated *)
  | String c s' =>
      if Ascii.eqb c q then
        match s' with
        | String c2 s'' => if Ascii.eqb c2 q
                           then option_map (fun r => (String q (fst r), snd r)) (lit_body_std q s'')    (* doubled quote *)
                           else Some (EmptyString, s')
        | EmptyString => Some (EmptyString, EmptyString)
        end
      else option_map (fun r => (String c (fst r), snd r)) (lit_body_std q s')
  end.
Definition read_literal_std (q : ascii) (s : string) : option (string * string) :=
  match s with String c s' => if Ascii.eqb c q then lit_body_std q s' else None | EmptyString => None end.

(* backslash family: `\` + c is one escaped character (its value is irrelevant here), a doubled quote is one quote *)
Fixpoint lit_body_bs (q : ascii) (s : string) : option (string * string) :=
  match s with
  | EmptyString => None
  | String c s' =>
      if Ascii.eqb c "\"%char then
        match s' with
        | String c2 s'' => option_map (fun r => (String c2 (fst r), snd r)) (lit_body_bs q s'')
        | EmptyString => None
        end
      else if Ascii.eqb c q then
        match s' with
        | String c2 s'' => if Ascii.eqb c2 q
                           then option_map (fun r => (String q (fst r), snd r)) (lit_body_bs q s'')
                           else Some (EmptyString, s')
        | EmptyString => Some (EmptyString, EmptyString)
        end
      else option_map (fun r => (String c (fst r), snd r)) (lit_body_bs q s')
  end.
Definition read_literal_bs (q : ascii) (s : string) : option (string * string) :=
  match s with String c s' => if Ascii.eqb c q then lit_body_bs q s' else None | EmptyString => None end.

(* quoted identifier: everything up to the next quote character (data_algebra never emits a doubled identifier quote) *)
Fixpoint ident_body (q : ascii) (s : string) : option (string * string) :=
  match s with
  | EmptyString => None
  | String c s' => if Ascii.eqb c q then Some (EmptyString, s')
                   else option_map (fun r => (String c (fst r), snd r)) (ident_body q s')
  end.
Definition read_ident (q : ascii) (s : string) : option (string * string) :=
  match s with String c s' => if Ascii.eqb c q then ident_body q s' else None | EmptyString => None end.

(* a `--` comment runs to the end of the line (LF; PostgreSQL and MySQL also end it at CR) *)
Definition is_eol (c : ascii) : bool := Ascii.eqb c "010"%char || Ascii.eqb c "013"%char.
Fixpoint skip_line (s : string) : string :=
  match s with EmptyString => EmptyString | String c s' => if is_eol c then s' else skip_line s' end.
Definition skip_comment (s : string) : option string :=
  match s with String "-" (String "-" s') => Some (skip_line s') | _ => None end.

Fixpoint has_char (p : ascii -> bool) (s : string) : bool :=
  match s with EmptyString => false | String c s' => p c || has_char p s' end.
Definition starts_with_char (q : ascii) (s : string) : bool :=
  match s with String c _ => Ascii.eqb c q | EmptyString => false end.
Definition q1 (q : ascii) : string := String q EmptyString.
