(* Model/PipePrint.v -- C12: printing a pipeline as Python source and rebuilding it from that source.

   1. syn_of_op / print_op : every node class's to_python_src_ (view_representations.py), RecordMap.__repr__,
        RecordSpecification.__repr__ and util.pandas_to_example_str (cdata.py, util.py) as syntax trees / token lists
        over C11's operator trees `eop` (Model/Equiv.v).  Strings are written with str.__repr__ (PipePrintStr.py_repr),
        expressions as the repr of their to_python() text (PipePrintStr.text_py).  Which optional arguments are left
        out is transcribed: qualifiers when empty, partition_by unless windowed (then the list, or 1 when it is
        empty), order_by / reverse / group_by when empty, limit when None.
   2. eval_syn / rebuild : what expr_parse_fn.eval_da_ops (Python's eval in the module's globals) computes from such a
        text: literals, lists, tuples, dicts, TableDescription(...), pd.DataFrame({...}),
        data_algebra.cdata.RecordSpecification(...) / RecordMap(...), and the builder methods of ViewRepresentation
        with their argument conventions and the steps that decide WHICH TREE comes out: every expression string is
        re-parsed in the context of the source's columns (lexg + C13's parse), an order_rows without limit below the
        new step is skipped (is_trivial_when_intermediate_), extends are merged (the REGENERATED try_to_merge_ops),
        select_columns collapses a select_columns / drop_columns below it, partition_by=1 / windowed_situation,
        the join type is upper-cased, one-row record specifications become None.
        Of the VALIDATION done by the builders only the cheap structural tests are transcribed (unknown / repeated
        columns, produced-and-used, disjointness of partition / order / produced columns, rename collisions, shape
        of control tables); the window-function catalogue tests are C26's subject and are not repeated here.
   3. normal : the trees the builders produce (no skipped / merged / collapsed step left, stored flags as the
        constructors compute them) whose expressions are printable in C13's sense.
   Not modelled: SQLNode, DictTerm (mapv) inside pipelines and nan constants (no image in `pexpr` / `expr`: the
   converter refuses them and the implementation-level oracle covers them), control-table cells other than strings
   and None, black (layout only), pickle.  No proofs here. *)
From Coq Require Import List Bool String Ascii ZArith NArith QArith Arith.
Import ListNotations.
From DA Require Import Base.PyRT Model.Equiv Gen.G_MergeOps.
From DA Require Import Model.PyExpr Model.ExprPrint Model.ExprParse Model.ExprRoundtrip Model.PipePrintStr Model.PipePrintSyn.
Local Close Scope Q_scope.
Local Open Scope string_scope.
Local Open Scope bool_scope.
Local Open Scope list_scope.

(* what the running library provides: the names the expression walker knows (C13's cfg), float repr / float(),
   the non-printable code points above 127, and expr_rep.fn_names_that_imply_windowed_situation *)
Record penv := mkE { e_cfg : cfg; e_F : ffmt; e_np : N -> bool; e_win : list string }.

(* ------------------------------------------------------------------ C11's expressions <-> C13's expressions *)
Definition to_const (k : pyconst) : option pval :=
  match k with
  | KNone => Some PNone
  | KBool b => Some (PBool b)
  | KInt z => Some (PInt z)
  | KFloat q => Some (PFloat (Z.ltb (Qnum q) 0) (Qmake (Z.abs (Qnum q)) (Qden q)))
  | KNaN => None
  | KStr s => Some (PStr s)
  end.
Definition of_const (v : pval) : option pyconst :=
  match v with
  | PNone => Some KNone
  | PBool b => Some (KBool b)
  | PInt z => Some (KInt z)
  | PFloat neg m => Some (KFloat (if neg then Qmake (- Qnum m) (Qden m) else m))
  | PInf _ => None
  | PStr s => Some (KStr s)
  end.

Fixpoint to_e (x : pexpr) : option expr :=
  match x with
  | PCol c => Some (ECol c)
  | PVal k => option_map EVal (to_const k)
  | PList _ items => option_map EList (mapM to_const items)
  | POp op i m args =>
      option_map (EOp op i m None)
        ((fix go (l : list pexpr) : option (list expr) :=
            match l with
            | [] => Some []
            | a :: t => match to_e a, go t with Some a', Some t' => Some (a' :: t') | _, _ => None end
            end) args)
  end.
(* the parser boxes list items as Value objects; DictTerm and Expression.params have no image in pexpr *)
Fixpoint of_e (e : expr) : option pexpr :=
  match e with
  | ECol c => Some (PCol c)
  | EVal v => option_map PVal (of_const v)
  | EList vs => option_map (PList true) (mapM of_const vs)
  | EDict _ => None
  | EOp op i m params args =>
      match params with
      | Some _ => None
      | None =>
          option_map (POp op i m)
            ((fix go (l : list expr) : option (list pexpr) :=
                match l with
                | [] => Some []
                | a :: t => match of_e a, go t with Some a', Some t' => Some (a' :: t') | _, _ => None end
                end) args)
      end
  end.

Fixpoint pcols (x : pexpr) : list string :=
  match x with
  | PCol c => [c]
  | POp _ _ _ args => flat_map pcols args
  | _ => []
  end.
(* expr_rep.get_columns_used *)
Definition ops_cols (ops : pydict string pexpr) : list string := flat_map (fun ke => pcols (snd ke)) ops.

(* ------------------------------------------------------------------ 1. the printers *)
Section Print.
Variable E : penv.

Definition str_syn (s : string) : syn := SAtom (TkStr (py_repr (e_np E) s)).
Definition strs_syn (l : list string) : syn := SList (map str_syn l).
Definition bool_syn (b : bool) : syn := SAtom (TkName (if b then "True" else "False")).
Definition none_syn : syn := SAtom (TkName "None").
Definition expr_syn (x : pexpr) : option syn := option_map (fun e => str_syn (expr_text (e_F E) (e_np E) e)) (to_e x).

Definition ops_syn (ops : list (string * pexpr)) : option syn :=
  option_map (SDict false)
    (mapM (fun ke => option_map (fun v => (str_syn (fst ke), v)) (expr_syn (snd ke))) ops).

Definition opt_arg (present : bool) (k : string) (v : syn) : list (option string * syn) :=
  if present then [(Some k, v)] else [].
Definition nonempty {A} (l : list A) : bool := match l with [] => false | _ => true end.

(* _convert_parallel_lists_to_on_clause *)
Definition on_syn (on_a on_b : list string) : syn :=
  SList (map (fun ab => if String.eqb (fst ab) (snd ab) then str_syn (fst ab) else STuple [str_syn (fst ab); str_syn (snd ab)])
             (combine on_a on_b)).

(* util.pandas_to_example_str: control-table cells are strings or None *)
Definition cell_syn (k : pyconst) : option syn :=
  match k with KStr s => Some (str_syn s) | KNone => Some none_syn | _ => None end.
Definition frame_syn (cols : list (string * list pyconst)) : option syn :=
  option_map (fun kvs => SCall ["pd"; "DataFrame"] [(None, SDict true kvs)])
    (mapM (fun cc => option_map (fun cells => (str_syn (fst cc), SList cells)) (mapM cell_syn (snd cc))) cols).
(* RecordSpecification.__repr__ *)
Definition spec_syn (r : recspec) : option syn :=
  option_map (fun fr =>
    SCall ["data_algebra"; "cdata"; "RecordSpecification"]
      [(Some "record_keys", strs_syn (rs_record_keys r)); (Some "control_table", fr);
       (Some "control_table_keys", strs_syn (rs_control_keys r)); (Some "strict", bool_syn (rs_strict r))])
    (frame_syn (rs_control r)).
Definition opt_spec_syn (o : option recspec) : option syn :=
  match o with None => Some none_syn | Some r => spec_syn r end.
(* RecordMap.__repr__ *)
Definition recmap_syn (m : recmap) : option syn :=
  match opt_spec_syn (rm_in m), opt_spec_syn (rm_out m) with
  | Some i, Some o =>
      Some (SCall ["data_algebra"; "cdata"; "RecordMap"]
              [(Some "blocks_in", i); (Some "blocks_out", o); (Some "strict", bool_syn (rm_strict m))])
  | _, _ => None
  end.

(* X.to_python_src_(print_sources=True) *)
Fixpoint syn_of_op (p : eop) : option syn :=
  let meth (src : eop) (m : string) (args : option (list (option string * syn))) : option syn :=
    match syn_of_op src, args with Some s, Some a => Some (SMeth s m a) | _, _ => None end in
  match p with
  | ETable name cols quals =>
      Some (SCall ["TableDescription"]
              ([(Some "table_name", str_syn name); (Some "column_names", strs_syn cols)]
               ++ opt_arg (nonempty quals) "qualifiers" (SDict false (map (fun kv => (str_syn (fst kv), str_syn (snd kv))) quals))))
  | EExtend s ops part order rev w =>
      meth s "extend"
        (option_map (fun d =>
           [(None, d)]
           ++ opt_arg w "partition_by" (if nonempty part then strs_syn part else SAtom (TkInt 1))
           ++ opt_arg (nonempty order) "order_by" (strs_syn order)
           ++ opt_arg (nonempty rev) "reverse" (strs_syn rev)) (ops_syn ops))
  | EProject s ops gb =>
      meth s "project" (option_map (fun d => [(None, d)] ++ opt_arg (nonempty gb) "group_by" (strs_syn gb)) (ops_syn ops))
  | ESelectRows s e => meth s "select_rows" (option_map (fun x => [(None, x)]) (expr_syn e))
  | ESelectCols s cs => meth s "select_columns" (Some [(None, strs_syn cs)])
  | EDropCols s cs => meth s "drop_columns" (Some [(None, strs_syn cs)])
  | ERename s m => meth s "rename_columns" (Some [(None, SDict false (map (fun kv => (str_syn (fst kv), str_syn (snd kv))) m))])
  | EMapCols s m dels =>
      meth s "map_columns"
        (Some [(None, SDict false (map (fun kv => (str_syn (fst kv), str_syn (snd kv))) m
                                   ++ map (fun k => (str_syn k, none_syn)) dels))])
  | EOrder s cs rev limit =>
      meth s "order_rows"
        (Some ([(None, strs_syn cs)] ++ opt_arg (nonempty rev) "reverse" (strs_syn rev)
               ++ match limit with Some n => [(Some "limit", SAtom (TkInt (N.of_nat n)))] | None => [] end))
  | EJoin a b oa ob jt =>
      match syn_of_op b with
      | Some sb => meth a "natural_join" (Some [(Some "b", sb); (Some "on", on_syn oa ob); (Some "jointype", str_syn jt)])
      | None => None
      end
  | EConcat a b idc an bn =>
      match syn_of_op b with
      | Some sb =>
          meth a "concat_rows"
            (Some [(Some "b", sb); (Some "id_column", match idc with Some c => str_syn c | None => none_syn end);
                   (Some "a_name", str_syn an); (Some "b_name", str_syn bn)])
      | None => None
      end
  | EConvert s rm => meth s "convert_records" (option_map (fun x => [(None, x)]) (recmap_syn rm))
  end.

(* ViewRepresentation.to_python(): "(\n" + src + "\n)\n" *)
Definition pipe_syn (p : eop) : option syn := option_map SPar (syn_of_op p).
Definition print_op (p : eop) : option (list ptok) := option_map flatten (pipe_syn p).

(* ------------------------------------------------------------------ 2. evaluating the text *)
Inductive pyv :=
| YNone | YBool (b : bool) | YInt (n : N) | YStr (s : string)
| YList (l : list pyv) | YTuple (l : list pyv) | YDict (l : list (pyv * pyv))
| YOp (p : eop) | YFrame (cols : list (string * list pyconst)) | YSpec (r : recspec) | YMap (m : recmap).

Definition as_str (v : pyv) : option string := match v with YStr s => Some s | _ => None end.
(* a list (or tuple) of strings; a single string stands for a one-element list where the code says so *)
Definition as_strs (v : pyv) : option (list string) :=
  match v with YList l | YTuple l => mapM as_str l | _ => None end.
Definition as_strs1 (v : pyv) : option (list string) :=
  match v with YStr s => Some [s] | _ => as_strs v end.
Definition as_bool (v : pyv) : option bool := match v with YBool b => Some b | _ => None end.
(* a dict display with string keys: a repeated key keeps its first position and its last value *)
Definition as_sdict (v : pyv) : option (list (string * pyv)) :=
  match v with
  | YDict kvs => option_map dict_of_list (mapM (fun kv => option_map (fun k => (k, snd kv)) (as_str (fst kv))) kvs)
  | _ => None
  end.

Definition args_t := list (option string * pyv).
Definition pos_args (a : args_t) : list pyv := flat_map (fun x => match fst x with None => [snd x] | Some _ => [] end) a.
Fixpoint kwarg (k : string) (a : args_t) : option pyv :=
  match a with
  | [] => None
  | (Some k', v) :: t => if String.eqb k k' then Some v else kwarg k t
  | (None, _) :: t => kwarg k t
  end.
(* keyword names all among `allowed`, none repeated *)
Definition kw_names (a : args_t) : list string := flat_map (fun x => match fst x with Some k => [k] | None => [] end) a.
Definition nodups (l : list string) : bool := nodupb l.
Definition kws_ok (allowed : list string) (a : args_t) : bool := subset (kw_names a) allowed && nodups (kw_names a).
Definition is_none_arg (o : option pyv) : bool := match o with None | Some YNone => true | _ => false end.

(* _work_col_group_arg *)
Inductive cga := CGone | CGlist (l : list string).
Definition work_cga (cols : list string) (o : option pyv) : option cga :=
  match o with
  | None | Some YNone => Some (CGlist [])
  | Some (YStr s) => if mem s cols then Some (CGlist [s]) else None
  | Some (YInt n) => if N.eqb n 1 then Some CGone else None
  | Some v => match as_strs v with
              | Some l => if nodups l && subset l cols then Some (CGlist l) else None
              | None => None
              end
  end.
Definition cga_list (c : cga) : list string := match c with CGone => [] | CGlist l => l end.
Definition cga_is_one (c : cga) : bool := match c with CGone => true | _ => false end.

(* is_trivial_when_intermediate_: an order_rows without limit is skipped by the next builder call *)
Fixpoint strip_trivial (p : eop) : eop :=
  match p with EOrder s _ _ None => strip_trivial s | _ => p end.
Definition is_trivial (p : eop) : bool := match p with EOrder _ _ _ None => true | _ => false end.

(* expr_rep.implies_windowed *)
Definition implies_windowed (ops : list (string * pexpr)) : bool :=
  existsb (fun ke => match snd ke with POp op _ _ _ => smem op (e_win E) | _ => false end) ops.
Definition windowed_of (ops : list (string * pexpr)) (one : bool) (part order : list string) : bool :=
  implies_windowed ops || one || nonempty part || nonempty order.

(* parse_by_lark in the context of the view's columns; the result must have an image in pexpr *)
Definition parse_px (cols : list string) (text : string) : option pexpr :=
  match parse_text (e_F E) (e_cfg E) cols text with Ok e => of_e e | Err => None end.

(* expr_parse.parse_assignments_in_context on a dict of expression strings *)
Definition used_elsewhere (ops : list (string * pexpr)) : list string :=
  flat_map (fun ke => remove_elem (fst ke) (pcols (snd ke))) ops.
Definition parse_assignments (cols : list string) (d : list (string * pyv)) : option (list (string * pexpr)) :=
  match mapM (fun kv => match snd kv with
                        | YStr t => option_map (fun x => (fst kv, x)) (parse_px cols t)
                        | _ => None
                        end) d with
  | Some ops => if disjointb (map fst ops) (used_elsewhere ops) then Some ops else None
  | None => None
  end.

(* ViewRepresentation.__init__: at least one column, none repeated *)
Definition cols_ok (cols : list string) : bool := nonempty cols && nodups cols.

(* ---- extend / extend_parsed_ / ExtendNode.__init__ *)
Definition mk_extend (src : eop) (ops : list (string * pexpr)) (pb : cga) (ob rv : list string) : option eop :=
  let r := EExtend src ops (cga_list pb) ob rv (windowed_of ops (cga_is_one pb) (cga_list pb) ob) in
  if subset (ops_cols ops) (ecolumn_names src) && cols_ok (ecolumn_names r) then Some r else None.

Definition merge_candidate (self : eop) (ops : list (string * pexpr)) (pb : cga) (ob rv : list string)
  : option (eop * list (string * pexpr)) :=
  match self with
  | EExtend s0 ops0 part0 order0 rev0 w0 =>
      let compatible := (match pb with CGlist l => eqb l part0 | CGone => false end)
                        || ((cga_is_one pb || negb (nonempty (cga_list pb))) && negb (nonempty part0)) in
      let same_windowing := Bool.eqb (windowed_of ops (cga_is_one pb) (cga_list pb) ob) w0 in
      if compatible && same_windowing && eqb ob order0 && eqb rv rev0 then
        match try_to_merge_ops ops_cols ops0 ops with
        | Some new_ops => Some (s0, new_ops)
        | None => None
        end
      else None
  | _ => None
  end.

Definition b_extend (self : eop) (a : args_t) : option eop :=
  match pos_args a, kws_ok ["partition_by"; "order_by"; "reverse"] a with
  | [d], true =>
      match as_sdict d with
      | None => None
      | Some dd =>
          let cols := ecolumn_names self in
          match parse_assignments cols dd with
          | None => None
          | Some ops =>
              match ops with
              | [] => Some self
              | _ =>
                  match work_cga cols (kwarg "partition_by" a), work_cga cols (kwarg "order_by" a), work_cga cols (kwarg "reverse" a) with
                  | Some pb, Some (CGlist ob), Some (CGlist rv) =>
                      let produced := map fst ops in
                      if disjointb produced (cga_list pb) && disjointb (cga_list pb) ob && disjointb produced ob && subset rv ob then
                        let self' := strip_trivial self in
                        match merge_candidate self' ops pb ob rv with
                        | Some (s0, new_ops) => mk_extend s0 new_ops pb ob rv
                        | None => mk_extend self' ops pb ob rv
                        end
                      else None
                  | _, _, _ => None
                  end
              end
          end
      end
  | _, _ => None
  end.

(* ---- project / project_parsed_ / ProjectNode.__init__ *)
Definition b_project (self : eop) (a : args_t) : option eop :=
  match pos_args a, kws_ok ["group_by"] a with
  | [d], true =>
      match as_sdict d with
      | None => None
      | Some dd =>
          let cols := ecolumn_names self in
          match parse_assignments cols dd, work_cga cols (kwarg "group_by" a) with
          | Some ops, Some (CGlist gb) =>
              if (negb (nonempty ops) && negb (nonempty gb)) || negb (disjointb (map fst ops) gb) then None
              else
                let r := EProject (strip_trivial self) ops gb in
                if subset (ops_cols ops) cols && cols_ok (ecolumn_names r) then Some r else None
          | _, _ => None
          end
      end
  | _, _ => None
  end.

(* ---- select_rows *)
Definition b_select_rows (self : eop) (a : args_t) : option eop :=
  match a with
  | [(None, YNone)] => Some self
  | [(None, YStr t)] =>
      match parse_px (ecolumn_names self) t with
      | Some x => if subset (pcols x) (ecolumn_names self) then Some (ESelectRows (strip_trivial self) x) else None
      | None => None
      end
  | _ => None
  end.

(* ---- select_columns: collapses a select_columns / drop_columns (and a skipped order_rows) below it *)
Fixpoint strip_select (p : eop) : eop :=
  match p with
  | EOrder s _ _ None => strip_select s
  | ESelectCols s _ => strip_select s
  | EDropCols s _ => strip_select s
  | _ => p
  end.
Definition b_select_columns (self : eop) (a : args_t) : option eop :=
  match a with
  | [(None, v)] =>
      match as_strs1 v with
      | Some cs =>
          if nonempty cs && subset cs (ecolumn_names self) && nodups cs then Some (ESelectCols (strip_select self) cs) else None
      | None => None
      end
  | _ => None
  end.

Definition b_drop_columns (self : eop) (a : args_t) : option eop :=
  match a with
  | [(None, v)] =>
      match as_strs1 v with
      | Some [] => Some self
      | Some ds =>
          let r := EDropCols (strip_trivial self) ds in
          if subset ds (ecolumn_names self) && cols_ok (ecolumn_names r) then Some r else None
      | None => None
      end
  | _ => None
  end.

(* rename / map: unknown sources and collisions *)
Definition rename_ok (cols new_cols orig_cols : list string) : bool :=
  subset orig_cols cols
  && negb (nonempty (set_inter (set_diff cols (set_inter new_cols orig_cols)) new_cols)).

Definition b_rename_columns (self : eop) (a : args_t) : option eop :=
  match a with
  | [(None, v)] =>
      match as_sdict v with
      | Some [] => Some self
      | Some d =>
          match mapM (fun kv => option_map (fun o => (fst kv, o)) (as_str (snd kv))) d with
          | Some m =>
              let r := ERename (strip_trivial self) m in
              if rename_ok (ecolumn_names self) (map fst m) (map snd m) && cols_ok (ecolumn_names r) then Some r else None
          | None => None
          end
      | None => None
      end
  | _ => None
  end.

Definition b_map_columns (self : eop) (a : args_t) : option eop :=
  match a with
  | [(None, v)] =>
      match as_sdict v with
      | Some [] => Some self
      | Some d =>
          if forallb (fun kv => match snd kv with YStr _ | YNone => true | _ => false end) d then
            let m := flat_map (fun kv => match snd kv with YStr n => [(fst kv, n)] | _ => [] end) d in
            let dels := flat_map (fun kv => match snd kv with YNone => [fst kv] | _ => [] end) d in
            let r := EMapCols (strip_trivial self) m dels in
            if rename_ok (ecolumn_names self) (map snd m) (map fst d) && cols_ok (ecolumn_names r) then Some r else None
          else None
      | None => None
      end
  | _ => None
  end.

Definition as_limit (o : option pyv) : option (option nat) :=
  match o with
  | None | Some YNone => Some None
  | Some (YInt n) => Some (Some (N.to_nat n))
  | _ => None
  end.

Definition b_order_rows (self : eop) (a : args_t) : option eop :=
  match pos_args a, kws_ok ["reverse"; "limit"] a with
  | [v], true =>
      match as_strs1 v, match kwarg "reverse" a with None | Some YNone => Some [] | Some r => as_strs1 r end,
            as_limit (kwarg "limit" a) with
      | Some cs, Some rv, Some lim =>
          if negb (nonempty cs) && match lim with None => true | Some _ => false end then Some self
          else if subset cs (ecolumn_names self) && subset rv cs then Some (EOrder (strip_trivial self) cs rv lim) else None
      | _, _, _ => None
      end
  | _, _ => None
  end.

(* _convert_on_clause_to_parallel_lists *)
Definition on_lists (o : option pyv) : option (list string * list string) :=
  match o with
  | None | Some YNone => Some ([], [])
  | Some (YStr s) => Some ([s], [s])
  | Some (YList l) | Some (YTuple l) =>
      option_map (fun ps => (map fst ps, map snd ps))
        (mapM (fun v => match v with
                        | YStr s => Some (s, s)
                        | YTuple [YStr x; YStr y] | YList [YStr x; YStr y] => Some (x, y)
                        | _ => None
                        end) l)
  | _ => None
  end.

Definition upper_char (c : ascii) : ascii := if in_range 97 122 c then chr (code c - 32) else c.
Fixpoint str_upper (s : string) : string :=
  match s with EmptyString => EmptyString | String c r => String (upper_char c) (str_upper r) end.
Definition join_types : list string := ["INNER"; "LEFT"; "RIGHT"; "OUTER"; "FULL"; "CROSS"].
(* expr_rep.standardize_join_type *)
Definition standardize_join_type (s : string) : option string :=
  let u := str_upper s in if smem u join_types then Some u else None.

Definition b_natural_join (self : eop) (a : args_t) : option eop :=
  match pos_args a, kws_ok ["b"; "on"; "jointype"] a, kwarg "b" a, kwarg "jointype" a with
  | [], true, Some (YOp b), Some (YStr jt) =>
      match on_lists (kwarg "on" a), standardize_join_type jt with
      | Some (oa, ob), Some j =>
          let self' := strip_trivial self in
          let r := EJoin self' b oa ob j in
          if subset oa (ecolumn_names self') && subset ob (ecolumn_names b)
             && negb (String.eqb j "CROSS" && nonempty oa) && cols_ok (ecolumn_names r)
          then Some r else None
      | _, _ => None
      end
  | _, _, _, _ => None
  end.

Definition b_concat_rows (self : eop) (a : args_t) : option eop :=
  match pos_args a, kws_ok ["b"; "id_column"; "a_name"; "b_name"] a, kwarg "b" a with
  | [], true, Some YNone => Some self
  | [], true, Some (YOp b) =>
      let idc := match kwarg "id_column" a with
                 | None => Some (Some "source_name")
                 | Some YNone => Some None
                 | Some (YStr s) => Some (Some s)
                 | _ => None
                 end in
      let nm (k dflt : string) := match kwarg k a with None => Some dflt | Some (YStr s) => Some s | _ => None end in
      match idc, nm "a_name" "a", nm "b_name" "b" with
      | Some ic, Some an, Some bn =>
          let self' := strip_trivial self in
          let r := EConcat self' b ic an bn in
          if set_eqb (ecolumn_names self') (ecolumn_names b) && cols_ok (ecolumn_names r) then Some r else None
      | _, _, _ => None
      end
  | _, _, _ => None
  end.

(* columns a record map needs from its input (RecordMap.columns_needed) *)
Definition rm_columns_needed (m : recmap) : list string :=
  match rm_in m, rm_out m with
  | Some i, _ => rs_block_columns i
  | None, Some o => rs_row_columns o
  | None, None => []
  end.
Definition b_convert_records (self : eop) (a : args_t) : option eop :=
  match a with
  | [(None, YNone)] => Some self
  | [(None, YMap m)] =>
      let r := EConvert (strip_trivial self) m in
      if subset (rm_columns_needed m) (ecolumn_names self) && cols_ok (ecolumn_names r) then Some r else None
  | _ => None
  end.

Definition call_method_op (p : eop) (m : string) (a : args_t) : option eop :=
  if String.eqb m "extend" then b_extend p a
  else if String.eqb m "project" then b_project p a
  else if String.eqb m "select_rows" then b_select_rows p a
  else if String.eqb m "select_columns" then b_select_columns p a
  else if String.eqb m "drop_columns" then b_drop_columns p a
  else if String.eqb m "rename_columns" then b_rename_columns p a
  else if String.eqb m "map_columns" then b_map_columns p a
  else if String.eqb m "order_rows" then b_order_rows p a
  else if String.eqb m "natural_join" then b_natural_join p a
  else if String.eqb m "concat_rows" then b_concat_rows p a
  else if String.eqb m "convert_records" then b_convert_records p a
  else None.

(* ---- the global constructors *)
Definition g_table (a : args_t) : option pyv :=
  match pos_args a, kws_ok ["table_name"; "column_names"; "qualifiers"] a, kwarg "column_names" a with
  | [], true, Some cv =>
      let name := match kwarg "table_name" a with
                  | None | Some YNone => Some "data_frame"
                  | Some (YStr s) => Some s
                  | _ => None
                  end in
      let quals := match kwarg "qualifiers" a with
                   | None | Some YNone => Some []
                   | Some q => match as_sdict q with
                               | Some d => mapM (fun kv => option_map (fun v => (fst kv, v)) (as_str (snd kv))) d
                               | None => None
                               end
                   end in
      match name, as_strs1 cv, quals with
      | Some n, Some cols, Some ql => if cols_ok cols then Some (YOp (ETable n cols ql)) else None
      | _, _, _ => None
      end
  | _, _, _ => None
  end.

Definition as_cell (v : pyv) : option pyconst := match v with YStr s => Some (KStr s) | YNone => Some KNone | _ => None end.
Definition all_same_len (cols : list (string * list pyconst)) : bool :=
  match cols with
  | [] => true
  | c :: t => forallb (fun d => Nat.eqb (List.length (snd d)) (List.length (snd c))) t
  end.
Definition g_frame (a : args_t) : option pyv :=
  match a with
  | [(None, d)] =>
      match as_sdict d with
      | Some cols =>
          match mapM (fun kv => match snd kv with
                                | YList cells => option_map (fun cs => (fst kv, cs)) (mapM as_cell cells)
                                | _ => None
                                end) cols with
          | Some fr => if all_same_len fr then Some (YFrame fr) else None
          | None => None
          end
      | None => None
      end
  | _ => None
  end.

Definition frame_rows (fr : list (string * list pyconst)) : nat :=
  match fr with [] => O | c :: _ => List.length (snd c) end.

(* RecordSpecification.__init__ (shape tests only) *)
Definition g_spec (a : args_t) : option pyv :=
  match pos_args a, kws_ok ["record_keys"; "control_table"; "control_table_keys"; "strict"] a,
        kwarg "control_table" a, kwarg "strict" a with
  | [], true, Some (YFrame fr), Some (YBool st) =>
      let rk := match kwarg "record_keys" a with None | Some YNone => Some [] | Some v => as_strs1 v end in
      let ck := match kwarg "control_table_keys" a with
                | None | Some YNone => Some (if Nat.ltb 1 (frame_rows fr) then firstn 1 (map fst fr) else [])
                | Some v => as_strs1 v
                end in
      match rk, ck with
      | Some rkeys, Some ckeys =>
          if Nat.leb 1 (frame_rows fr) && Nat.leb 2 (List.length fr) && nodups (map fst fr)
             && subset ckeys (map fst fr) && Nat.ltb (List.length ckeys) (List.length fr)
             && (Nat.leb (frame_rows fr) 1 || nonempty ckeys) && disjointb rkeys ckeys
          then Some (YSpec (mkrs rkeys fr ckeys st)) else None
      | _, _ => None
      end
  | _, _, _, _ => None
  end.

(* RecordMap.__init__: a one-row specification is a row record, i.e. None *)
Definition g_recmap (a : args_t) : option pyv :=
  match pos_args a, kws_ok ["blocks_in"; "blocks_out"; "strict"] a with
  | [], true =>
      let spec (k : string) : option (option recspec) :=
        match kwarg k a with
        | None | Some YNone => Some None
        | Some (YSpec r) => Some (if Nat.leb (frame_rows (rs_control r)) 1 then None else Some r)
        | _ => None
        end in
      let st := match kwarg "strict" a with None => Some true | Some (YBool b) => Some b | _ => None end in
      match spec "blocks_in", spec "blocks_out", st with
      | Some i, Some o, Some s =>
          match i, o with
          | None, None => None
          | _, _ => Some (YMap (mkrm i o s))
          end
      | _, _, _ => None
      end
  | _, _ => None
  end.

Definition path_is (p q : list string) : bool := eqb p q.
Definition call_global (path : list string) (a : args_t) : option pyv :=
  if path_is path ["TableDescription"] then g_table a
  else if path_is path ["pd"; "DataFrame"] then g_frame a
  else if path_is path ["data_algebra"; "cdata"; "RecordSpecification"] then g_spec a
  else if path_is path ["data_algebra"; "cdata"; "RecordMap"] then g_recmap a
  else None.

Fixpoint eval_syn (s : syn) : option pyv :=
  let elist :=
    fix go (l : list syn) : option (list pyv) :=
      match l with
      | [] => Some []
      | x :: t => match eval_syn x, go t with Some v, Some vs => Some (v :: vs) | _, _ => None end
      end in
  let eargs :=
    fix go (l : list (option string * syn)) : option args_t :=
      match l with
      | [] => Some []
      | a :: t => match eval_syn (snd a), go t with Some v, Some vs => Some ((fst a, v) :: vs) | _, _ => None end
      end in
  match s with
  | SAtom (TkStr l) => option_map YStr (py_unquote l)
  | SAtom (TkInt n) => Some (YInt n)
  | SAtom (TkName n) =>
      if String.eqb n "None" then Some YNone
      else if String.eqb n "True" then Some (YBool true)
      else if String.eqb n "False" then Some (YBool false)
      else None
  | SAtom (TkSym _) => None
  | SList xs => option_map YList (elist xs)
  | STuple xs => option_map YTuple (elist xs)
  | SDict _ kvs =>
      option_map YDict
        ((fix go (l : list (syn * syn)) : option (list (pyv * pyv)) :=
            match l with
            | [] => Some []
            | kv :: t => match eval_syn (fst kv), eval_syn (snd kv), go t with
                         | Some k, Some v, Some r => Some ((k, v) :: r)
                         | _, _, _ => None
                         end
            end) kvs)
  | SPar x => eval_syn x
  | SCall path args => match eargs args with Some a => call_global path a | None => None end
  | SMeth recv m args =>
      match eval_syn recv, eargs args with
      | Some (YOp p), Some a => option_map YOp (call_method_op p m a)
      | _, _ => None
      end
  end.

(* eval_da_ops: evaluate, and `assert isinstance(ops, ViewRepresentation)` *)
Definition rebuild (ts : list ptok) : option eop :=
  match parse_py ts with
  | Some s => match eval_syn s with Some (YOp p) => Some p | _ => None end
  | None => None
  end.

(* ------------------------------------------------------------------ 3. builder-normal pipelines *)
(* an expression of a step over a source with columns `cols`: it has a C13 image that C13 can print and read back,
   whose names are written as they are lexed, whose list literals are boxed as the parser boxes them *)
Fixpoint boxed (x : pexpr) : bool :=
  match x with
  | PList w _ => w
  | POp _ _ _ args => forallb boxed args
  | _ => true
  end.
Definition expr_ok (cols : list string) (x : pexpr) : bool :=
  match to_e x with
  | Some e => printable (e_cfg E) cols e && is_term e && lexable e && boxed x
  | None => false
  end.
Definition ops_ok (cols : list string) (ops : list (string * pexpr)) : bool :=
  nodups (map fst ops) && forallb (fun ke => expr_ok cols (snd ke)) ops
  && disjointb (map fst ops) (used_elsewhere ops).

Definition spec_ok (r : recspec) : bool :=
  let fr := rs_control r in
  forallb (fun cc => forallb (fun k => match k with KStr _ | KNone => true | _ => false end) (snd cc)) fr
  && all_same_len fr && Nat.leb 2 (frame_rows fr) && Nat.leb 2 (List.length fr) && nodups (map fst fr)
  && subset (rs_control_keys r) (map fst fr) && Nat.ltb (List.length (rs_control_keys r)) (List.length fr)
  && nonempty (rs_control_keys r) && disjointb (rs_record_keys r) (rs_control_keys r).
Definition opt_spec_ok (o : option recspec) : bool := match o with None => true | Some r => spec_ok r end.

Definition select_src_ok (s : eop) : bool :=
  match s with EOrder _ _ _ None | ESelectCols _ _ | EDropCols _ _ => false | _ => true end.

Definition pb_of (w : bool) (part : list string) : cga := if w && negb (nonempty part) then CGone else CGlist part.

Fixpoint normal (p : eop) : bool :=
  match p with
  | ETable _ cols quals => cols_ok cols && nodups (map fst quals)
  | EExtend s ops part order rev w =>
      normal s && negb (is_trivial s) && nonempty ops && ops_ok (ecolumn_names s) ops
      && nodups part && subset part (ecolumn_names s) && nodups order && subset order (ecolumn_names s)
      && nodups rev && subset rev (ecolumn_names s)
      && disjointb (map fst ops) part && disjointb part order && disjointb (map fst ops) order && subset rev order
      && (w || (negb (nonempty part) && negb (implies_windowed ops) && negb (nonempty order)))
      && match merge_candidate s ops (pb_of w part) order rev with Some _ => false | None => true end
      && subset (ops_cols ops) (ecolumn_names s) && cols_ok (ecolumn_names p)
  | EProject s ops gb =>
      normal s && negb (is_trivial s) && ops_ok (ecolumn_names s) ops
      && nodups gb && subset gb (ecolumn_names s) && (nonempty ops || nonempty gb) && disjointb (map fst ops) gb
      && subset (ops_cols ops) (ecolumn_names s) && cols_ok (ecolumn_names p)
  | ESelectRows s e =>
      normal s && negb (is_trivial s) && expr_ok (ecolumn_names s) e && subset (pcols e) (ecolumn_names s)
  | ESelectCols s cs =>
      normal s && select_src_ok s && nonempty cs && subset cs (ecolumn_names s) && nodups cs
  | EDropCols s ds =>
      normal s && negb (is_trivial s) && nonempty ds && subset ds (ecolumn_names s) && cols_ok (ecolumn_names p)
  | ERename s m =>
      normal s && negb (is_trivial s) && nonempty m && nodups (map fst m)
      && rename_ok (ecolumn_names s) (map fst m) (map snd m) && cols_ok (ecolumn_names p)
  | EMapCols s m dels =>
      normal s && negb (is_trivial s) && (nonempty m || nonempty dels) && nodups (map fst m ++ dels)
      && rename_ok (ecolumn_names s) (map snd m) (map fst m ++ dels) && cols_ok (ecolumn_names p)
  | EOrder s cs rev limit =>
      normal s && negb (is_trivial s) && (nonempty cs || match limit with Some _ => true | None => false end)
      && subset cs (ecolumn_names s) && subset rev cs
  | EJoin a b oa ob jt =>
      normal a && normal b && negb (is_trivial a) && Nat.eqb (List.length oa) (List.length ob)
      && smem jt join_types && subset oa (ecolumn_names a) && subset ob (ecolumn_names b)
      && negb (String.eqb jt "CROSS" && nonempty oa) && cols_ok (ecolumn_names p)
  | EConcat a b _ _ _ =>
      normal a && normal b && negb (is_trivial a) && set_eqb (ecolumn_names a) (ecolumn_names b) && cols_ok (ecolumn_names p)
  | EConvert s rm =>
      normal s && negb (is_trivial s) && opt_spec_ok (rm_in rm) && opt_spec_ok (rm_out rm)
      && (match rm_in rm, rm_out rm with None, None => false | _, _ => true end)
      && subset (rm_columns_needed rm) (ecolumn_names s) && cols_ok (ecolumn_names p)
  end.

End Print.
