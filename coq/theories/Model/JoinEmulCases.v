(* C16 correspondence driver: the emulation models of Model/JoinEmul.v against what the real executors returned
   (None = the executor raised). *)
From Coq Require Import List Bool Arith ZArith QArith String.
Import ListNotations.
From DA Require Import Base.PyRT Base.Cases Base.Val Model.Sem Model.SemCases Model.JoinSpec Model.JoinEmul.

Inductive emul_kind := KSqliteRight | KSqliteFull | KSpec (jt : sqljoin).

Record jcase := mkjcase { jk : emul_kind; j_on_a : list string; j_on_b : list string; j_a : table; j_b : table; j_obs : option table }.

Definition model_of (c : jcase) : option table :=
  match jk c with
  | KSqliteRight => sqlite_right_emul (j_on_a c) (j_on_b c) (j_a c) (j_b c)
  | KSqliteFull => sqlite_full_emul (j_on_a c) (j_on_b c) (j_a c) (j_b c)
  | KSpec jt => Some (sql_join_spec jt (combine (j_on_a c) (j_on_b c)) (j_a c) (j_b c))      (* the SPECIFICATION against the hand-written native join *)
  end.

Definition jcase_ok (c : jcase) : bool :=
  match model_of c, j_obs c with
  | Some m, Some o => table_close false m o
  | None, None => true
  | _, _ => false
  end.
Definition check_jcases cs : list nat := failing_idx jcase_ok cs.
