(* C11 correspondence driver: the model's eop_eqb (under the flags detected for the tree under test) and ecolumn_names
   against `==` (both directions) and `column_names` observed on the real operator objects. *)
From Coq Require Import List Bool Arith ZArith QArith String.
Import ListNotations.
From DA Require Import Base.PyRT Base.Cases Base.Val Model.Sem Model.Equiv.

Record ecase := mkcase {
  c_q : quirks;                 (* flags of the implementation under test (one replayed witness per flag) *)
  c_a : eop; c_b : eop;         (* the two pipelines, converted field by field from the real node objects *)
  c_ab : bool; c_ba : bool;     (* observed a == b and b == a *)
  c_cols_a : list string; c_cols_b : list string   (* observed column_names *)
}.
Definition case_ok (c : ecase) : bool :=
  Bool.eqb (eop_eqb (c_q c) (c_a c) (c_b c)) (c_ab c) && Bool.eqb (eop_eqb (c_q c) (c_b c) (c_a c)) (c_ba c) &&
  eqb (ecolumn_names (c_a c)) (c_cols_a c) && eqb (ecolumn_names (c_b c)) (c_cols_b c) &&
  wfb (c_a c) && wfb (c_b c).
Definition check_cases (cs : list ecase) : list nat := failing_idx case_ok cs.

(* literal helper: a float as a reduced fraction *)
Definition KF (n : Z) (d : positive) : pyconst := KFloat (Qred (n # d)).
