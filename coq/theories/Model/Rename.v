(* C15, part A.  Consistent renaming of tables (rt) and columns (rc) over the reference semantics Model/Sem.v:
   every place a pipeline mentions a table or a column is renamed -- table descriptions, column references inside
   expressions, assignment keys, partition / order / reverse lists, group_by, select / drop lists, rename and map
   dictionaries (both sides), join keys, the id column of concat_rows.
   NOT renamed: operator names, constants, and the labels a_name / b_name of concat_rows (they are DATA written into
   the id column, not names).  Table contents (cell values) are never touched: names are not values.
   No proofs in this file (Proofs/RenameP1.v, RenameP2.v). *)
From Coq Require Import List Bool Arith String.
Import ListNotations.
From DA Require Import Base.PyRT Base.Val Model.Sem.
Local Open Scope list_scope.

Definition injective (r : string -> string) : Prop := forall a b, r a = r b -> a = b.

Fixpoint rename_expr (rc : string -> string) (e : expr) : expr :=
  match e with
  | ECol c => ECol (rc c)
  | EConst v => EConst v
  | EOp op args => EOp op ((fix go (l : list expr) : list expr := match l with [] => [] | a :: t => rename_expr rc a :: go t end) args)
  end.

Definition rename_ops (rc : string -> string) (ops : list (string * expr)) : list (string * expr) :=
  map (fun ke => (rc (fst ke), rename_expr rc (snd ke))) ops.

Definition rename_pairs (rc : string -> string) (m : list (string * string)) : list (string * string) :=
  map (fun no => (rc (fst no), rc (snd no))) m.

Definition rename_window (rc : string -> string) (w : window) : window :=
  mkwin (map rc (w_part w)) (map rc (w_order w)) (map rc (w_rev w)).

Fixpoint rename_op (rt rc : string -> string) (p : op) : op :=
  match p with
  | OTable n cs => OTable (rt n) (map rc cs)
  | OExtend s ops wd w => OExtend (rename_op rt rc s) (rename_ops rc ops) wd (rename_window rc w)
  | OProject s ops gb => OProject (rename_op rt rc s) (rename_ops rc ops) (map rc gb)
  | OSelectRows s x => OSelectRows (rename_op rt rc s) (rename_expr rc x)
  | OSelectCols s cs => OSelectCols (rename_op rt rc s) (map rc cs)
  | ODropCols s cs => ODropCols (rename_op rt rc s) (map rc cs)
  | ORename s m => ORename (rename_op rt rc s) (rename_pairs rc m)
  | OMapCols s m dels => OMapCols (rename_op rt rc s) (rename_pairs rc m) (map rc dels)
  | OOrder s cs rev lim => OOrder (rename_op rt rc s) (map rc cs) (map rc rev) lim
  | OJoin a b on_a on_b jt => OJoin (rename_op rt rc a) (rename_op rt rc b) (map rc on_a) (map rc on_b) jt
  | OConcat a b idc an bn => OConcat (rename_op rt rc a) (rename_op rt rc b) (option_map rc idc) an bn
  end.

(* a table keeps its rows; only the column names change *)
Definition rename_tab (rc : string -> string) (t : table) : table := mktable (map rc (cols t)) (rows t).

Definition rename_env (rt rc : string -> string) (e : env) : env :=
  map (fun nt => (rt (fst nt), rename_tab rc (snd nt))) e.

(* every table and column name a pipeline mentions (used by part B: "user names") *)
Definition ops_names (ops : list (string * expr)) : list string := flat_map (fun ke => fst ke :: cols_used (snd ke)) ops.
Fixpoint op_column_names (p : op) : list string :=
  match p with
  | OTable _ cs => cs
  | OExtend s ops _ w => op_column_names s ++ ops_names ops ++ w_part w ++ w_order w ++ w_rev w
  | OProject s ops gb => op_column_names s ++ ops_names ops ++ gb
  | OSelectRows s x => op_column_names s ++ cols_used x
  | OSelectCols s cs | ODropCols s cs => op_column_names s ++ cs
  | ORename s m => op_column_names s ++ map fst m ++ map snd m
  | OMapCols s m dels => op_column_names s ++ map fst m ++ map snd m ++ dels
  | OOrder s cs rev _ => op_column_names s ++ cs ++ rev
  | OJoin a b on_a on_b _ => op_column_names a ++ op_column_names b ++ on_a ++ on_b
  | OConcat a b idc _ _ => op_column_names a ++ op_column_names b ++ (match idc with Some c => [c] | None => [] end)
  end.
Fixpoint op_table_names (p : op) : list string :=
  match p with
  | OTable n _ => [n]
  | OExtend s _ _ _ | OProject s _ _ | OSelectRows s _ | OSelectCols s _ | ODropCols s _ | ORename s _ | OMapCols s _ _
  | OOrder s _ _ _ => op_table_names s
  | OJoin a b _ _ _ | OConcat a b _ _ _ => op_table_names a ++ op_table_names b
  end.

(* a renaming that exchanges two names and leaves every other name alone (injective on ALL strings) *)
Definition swap (a b : string) (s : string) : string := if String.eqb s a then b else if String.eqb s b then a else s.
(* several exchanges in a row *)
Definition swaps (l : list (string * string)) (s : string) : string := fold_left (fun x ab => swap (fst ab) (snd ab) x) l s.
