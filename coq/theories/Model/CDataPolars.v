(* C17 -- hand model of the POLARS realisation of the two record conversions (data_algebra/polars_model.py
   blocks_to_rowrecs / rowrecs_to_blocks / table_is_keyed_by_columns, /repo 18f1d41), transcribed step by step, and of
   RecordMap.transform on a Polars frame (cdata.py dispatches to the PolarsModel through lookup_data_model_for_dataframe;
   the steps are the same as for Pandas).

   Modelled, not verified (hand models of Polars primitives; sampled by the correspondence check on every run):
     * DataFrame.select(cols)                    -> select_cols
     * group_by(keys).sum()[count].max() <= 1    -> is_keyed_pl   (null keys form a group of their own: nothing is dropped)
     * DataFrame.partition_by(keys)              -> partition_pl  (maintain_order=True: groups in order of first appearance,
                                                                  rows in frame order; a null key is a group)
     * DataFrame.sort(keys)                      -> sort_rows_nf  (lexicographic, NULLS FIRST)
     * one-row join(how="left") on the keys      -> the filter in lookup_names_pl (a null never matches; no match: the names
                                                    are null and `s.columns = [None, ...]` raises TypeError)
     * pl.concat(how="horizontal") / renaming    -> hcat_all, and Reject when a column name would repeat (DuplicateError)
     * pl.concat(how="vertical")                 -> flat_map      (Polars also raises SchemaError when the stacked pieces differ
                                                    in dtype; dtypes are not modelled -- the harness skips the cases in which
                                                    Polars itself raises)
   No proofs in this file. *)
From Coq Require Import List Bool Arith ZArith QArith String Ascii.
Import ListNotations.
From DA Require Import Base.PyRT Base.Val Model.CData.

(* ------------------------------------------------------------------ Polars' sort order: nulls first *)
Definition val_rank_nf (v : val) : nat :=
  match v with VNull => 0 | VBool _ => 1 | VInt _ => 2 | VNum _ => 3 | VStr _ => 4 end.

Definition val_cmp_nf (a b : val) : comparison :=
  match a, b with
  | VBool x, VBool y => bool_cmp x y
  | VInt x, VInt y => Z.compare x y
  | VNum x, VNum y => Qcompare x y
  | VStr x, VStr y => String.compare x y
  | _, _ => Nat.compare (val_rank_nf a) (val_rank_nf b)
  end.

Fixpoint key_cmp_nf (a b : list val) : comparison :=
  match a, b with
  | [], [] => Eq
  | [], _ :: _ => Lt
  | _ :: _, [] => Gt
  | x :: a', y :: b' => match val_cmp_nf x y with Eq => key_cmp_nf a' b' | c => c end
  end.

Section SortNf.
  Context {A : Type} (key : A -> list val).
  Fixpoint insert_by_nf (x : A) (l : list A) : list A :=
    match l with
    | [] => [x]
    | y :: t => if cmp_leb (key_cmp_nf (key x) (key y)) then x :: l else y :: insert_by_nf x t
    end.
  Definition sort_by_nf (l : list A) : list A := fold_right insert_by_nf [] l.
End SortNf.

Definition sort_rows_nf (cs keys : list string) (rs : list (list val)) : list (list val) :=
  sort_by_nf (fun r => cells cs r keys) rs.

(* ------------------------------------------------------------------ polars_model.table_is_keyed_by_columns *)
Definition is_keyed_pl (keys : list string) (t : table) : bool :=
  if Nat.ltb (List.length (rows t)) 2 then true
  else if subset keys (cols t) then
    match keys with
    | [] => false
    | _ => nodupb (map (fun r => cells (cols t) r keys) (rows t))
    end
  else false.

(* partition_by(keys): (key tuple, its rows), in order of first appearance *)
Definition partition_pl (keys : list string) (t : table) : list (list val * list (list val)) :=
  map (fun k => (k, filter (fun r => eqb (cells (cols t) r keys) k) (rows t)))
      (dedup [] (map (fun r => cells (cols t) r keys) (rows t))).

Definition lookup_names_pl (s : recspec) (k : list val) : res (list string) :=
  let ct := rs_ct s in
  match filter (fun cr => eqb (cells (cols ct) cr (rs_ctkeys s)) k) (rows ct) with
  | [cr] => Ok (map (fun c => val_str (get (cols ct) cr c))
                    (filter (fun c => negb (mem c (rs_ctkeys s))) (cols ct)))
  | _ => Reject                    (* no match: null names, TypeError; several matches: assert keys.shape[0] == 1 *)
  end.

Definition blocks_to_rowrecs_pl (s : recspec) (t : table) : res table :=
  let RK := rs_keys s in let CK := rs_ctkeys s in
  let bc := block_columns s in
  let d := select_cols bc t in
  match rows d with
  | [] => Ok (mktable (row_columns s) [])
  | _ :: _ =>
    if negb (is_keyed_pl (RK ++ CK) d) then Reject
    else
      let split0 := partition_pl CK d in
      let split := map (fun kg => (fst kg, match RK with [] => snd kg | _ => sort_rows_nf bc RK (snd kg) end)) split0 in
      match split with
      | [] => Reject
      | (_, g0) :: rest =>
        if negb (forallb (fun kg => Nat.eqb (List.length (snd kg)) (List.length g0)) rest) then Reject
        else
          let sk := map (fun r => cells bc r RK) g0 in
          let keep := filter (fun c => negb (mem c (RK ++ CK))) bc in
          let pieces := map (fun kg => map (fun r => cells bc r keep) (snd kg)) split in
          match res_all (map (fun kg => lookup_names_pl s (fst kg)) split) with
          | Ok names =>
            if negb (forallb (fun ns => Nat.eqb (List.length ns) (List.length keep)) names) then Reject
            else
              let cs := RK ++ List.concat names in
              if negb (nodupb cs) then Reject                    (* DuplicateError *)
              else
                let body := hcat2 sk (hcat_all (List.length g0) pieces) in
                Ok (mktable cs (match RK with [] => body | _ => sort_rows_nf cs RK body end))
          | _ => Reject
          end
      end
  end.

Definition rowrecs_to_blocks_pl (s : recspec) (t : table) : res table :=
  let RK := rs_keys s in let CK := rs_ctkeys s in let ct := rs_ct s in
  let rc := row_columns s in
  let d := select_cols rc t in
  match rows d with
  | [] => Ok (mktable (block_columns s) [])
  | _ :: _ =>
    if negb (is_keyed_pl RK d) then Reject
    else
      let VC := value_cols s in
      let extract_rows (cr : list val) :=
        let ct_keys := cells (cols ct) cr CK in
        let col_names := map (fun c => val_str (get (cols ct) cr c)) VC in
        map (fun r => cells rc r RK ++ ct_keys ++ cells rc r col_names) (rows d) in
      let cs := RK ++ CK ++ VC in
      Ok (mktable cs (sort_rows_nf cs (RK ++ CK) (flat_map extract_rows (rows ct))))
  end.

(* RecordMap.transform on a Polars frame *)
Definition transform_pl (m : recmap) (t : table) : res table :=
  if negb (subset (columns_needed m) (cols t)) then Reject
  else
    res_bind (match rm_in m with Some i => blocks_to_rowrecs_pl i t | None => Ok t end)
             (fun x => match rm_out m with Some o => rowrecs_to_blocks_pl o x | None => Ok x end).
