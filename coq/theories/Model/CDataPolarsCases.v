(* C17 -- correspondence cases for the Polars realisation: RecordMap.transform on a Polars frame as OBSERVED, compared inside
   Coq with Model/CDataPolars.v transform_pl.  Cases in which Polars itself raises (dtype / schema errors) are not written. *)
From Coq Require Import List Bool Arith ZArith QArith String.
Import ListNotations.
From DA Require Import Base.PyRT Base.Cases Base.Val Model.CData Model.CDataCases Model.CDataPolars.

Inductive pcase := KTransformPl (bin bout : option sarg) (strict : bool) (t : table) (o : otable).

Definition pcase_ok (c : pcase) : bool :=
  match c with
  | KTransformPl bin bout strict t o =>
    match build_map bin bout strict with Some m => table_matches (transform_pl m t) o | None => false end
  end.

Definition check_cases_pl (cs : list pcase) : list nat := failing_idx pcase_ok cs.
