(* Hand models of data_model_space.DataModelSpace and db_space.DBSpace as state machines.
   T = table values, P = pipelines, evalp = evaluation of a pipeline against the current contents (may fail);
   name_of n = the text of f"da_temp_{n}". *)
From Coq Require Import List Bool Arith String.
Import ListNotations.
From DA Require Import Base.PyRT.

Section DS.
Context {T P : Type} (evalp : pydict string T -> P -> option T) (name_of : nat -> string).

Inductive dop :=
  | DInsert (key : option string) (v : T) (ow : bool)
  | DRemove (k : string)
  | DExecute (p : P) (key : option string) (ow : bool)
  | DRetrieve (k : string)
  | DDescribe (k : string)
  | DKeys.
Inductive dout := OKey (k : string) | OVal (v : T) | OKeys (l : list string) | OUnit | OFail.

(* `while key in map: n += 1`  -- terminates because the map is finite; fuel = size of the map *)
Fixpoint fresh (fuel : nat) (used : list string) (n : nat) : nat :=
  match fuel with
  | O => n
  | S f => if mem (name_of n) used then fresh f used (S n) else n
  end.
Definition auto_key (used : list string) (n : nat) : string * nat :=
  let n1 := S n in let n2 := fresh (List.length used) used n1 in (name_of n2, n2).

(* ---------------- DataModelSpace *)
Record mstate := mkm { dmap : pydict string T; ntmp : nat }.
Definition m_init : mstate := mkm [] 0.

Definition m_step (s : mstate) (o : dop) : mstate * dout :=
  match o with
  | DInsert key v ow =>
      let '(k, n) := match key with Some k => (k, ntmp s) | None => auto_key (dict_keys (dmap s)) (ntmp s) end in
      if negb ow && dict_has (dmap s) k then (mkm (dmap s) n, OFail)
      else (mkm (dict_set (dmap s) k v) n, OKey k)
  | DRemove k =>
      if dict_has (dmap s) k then (mkm (dict_pop (dmap s) k) (ntmp s), OUnit) else (s, OFail)
  | DExecute p key ow =>
      let '(k, n) := match key with Some k => (k, ntmp s) | None => auto_key (dict_keys (dmap s)) (ntmp s) end in
      if negb ow && dict_has (dmap s) k then (mkm (dmap s) n, OFail)
      else match evalp (dmap s) p with
           | Some v => (mkm (dict_set (dmap s) k v) n, OKey k)
           | None => (mkm (dmap s) n, OFail)
           end
  | DRetrieve k => match dict_get (dmap s) k with Some v => (s, OVal v) | None => (s, OFail) end
  | DDescribe k => if dict_has (dmap s) k then (s, OKey k) else (s, OFail)
  | DKeys => (s, OKeys (dict_keys (dmap s)))
  end.

(* ---------------- DBSpace: description_map keys + the database's tables *)
Record dstate := mkd { ddesc : list string; ddb : pydict string T; dn : nat }.
Definition d_init : dstate := mkd [] [] 0.
Definition d_contents (s : dstate) : pydict string T :=      (* what the space holds: described keys with their tables *)
  filter (fun kv => mem (fst kv) (ddesc s)) (ddb s).

Definition d_step (s : dstate) (o : dop) : dstate * dout :=
  match o with
  | DInsert key v ow =>
      let '(k, n) := match key with Some k => (k, dn s) | None => auto_key (ddesc s) (dn s) end in
      if negb ow && mem k (ddesc s) then (mkd (ddesc s) (ddb s) n, OFail)
      else if negb ow && dict_has (ddb s) k then (mkd (ddesc s) (ddb s) n, OFail)       (* handle.insert_table raises *)
      else (mkd (add_end (ddesc s) k) (dict_set (dict_pop (ddb s) k) k v) n, OKey k)
  | DRemove k =>
      if mem k (ddesc s) then (mkd (remove_elem k (ddesc s)) (dict_pop (ddb s) k) (dn s), OUnit) else (s, OFail)
  | DExecute p key ow =>
      let '(k, n) := match key with Some k => (k, dn s) | None => auto_key (ddesc s) (dn s) end in
      if mem k (ddesc s) && negb ow then (mkd (ddesc s) (ddb s) n, OFail)
      else
        (* existing entry: self.remove(key) happens BEFORE the query runs *)
        let desc1 := if mem k (ddesc s) then remove_elem k (ddesc s) else ddesc s in
        let db1 := if mem k (ddesc s) then dict_pop (ddb s) k else ddb s in
        if dict_has db1 k then (mkd desc1 db1 n, OFail)                                  (* CREATE TABLE on an existing table *)
        else match evalp db1 p with
             | Some v => (mkd (add_end desc1 k) (dict_set db1 k v) n, OKey k)
             | None => (mkd desc1 db1 n, OFail)
             end
  | DRetrieve k =>
      if mem k (ddesc s) then match dict_get (ddb s) k with Some v => (s, OVal v) | None => (s, OFail) end else (s, OFail)
  | DDescribe k => if mem k (ddesc s) then (s, OKey k) else (s, OFail)
  | DKeys => (s, OKeys (ddesc s))
  end.

Definition m_run (ops : list dop) : mstate := fold_left (fun s o => fst (m_step s o)) ops m_init.
Definition d_run (ops : list dop) : dstate := fold_left (fun s o => fst (d_step s o)) ops d_init.
End DS.
