(* C26 correspondence driver: the model's verdict on (prefix, step) against what the real builder did *)
From Coq Require Import List Bool Arith String.
Import ListNotations.
From DA Require Import Base.PyRT Base.Cases Model.Builder.

Definition result_eqb (a b : result) : bool :=
  match a, b with
  | Reject, Reject => true
  | Accept x, Accept y => strs_eqb x y
  | _, _ => false
  end.

(* case: the prefix as the builder methods see it, its real column_names, the step, and the outcome observed on the real builder
   (Reject = any exception; Accept = the new node's column_names) *)
Definition case := (prefix * list string * step * result)%type.
Definition case_ok (T : tables) (c : case) : bool :=
  let '(p, pcols, s, obs) := c in
  strs_eqb (declared p) pcols               (* the model's declared columns of the prefix = the real column_names *)
  && result_eqb (apply_step T p s) obs.
Definition check_cases (T : tables) (cs : list case) : list nat := failing_idx (case_ok T) cs.

(* the `return self.sources[0].<method>(...)` calls found in view_representations.py, against Builder.forwarded_args *)
Fixpoint fwd_lookup (l : list (string * list string)) (k : string) : option (list string) :=
  match l with [] => None | (k', v) :: t => if String.eqb k k' then Some v else fwd_lookup t k end.
Definition fwd_case_ok (c : string * list string) : bool :=
  match fwd_lookup forwarded_args (fst c) with
  | Some v => strs_eqb v (snd c)
  | None => false
  end.
(* every method of the model's table must have been found in the source, and every call found must match *)
Definition check_fwd (cs : list (string * list string)) : list nat :=
  failing_idx fwd_case_ok cs
  ++ (if forallb (fun kv => match fwd_lookup cs (fst kv) with Some _ => true | None => false end) forwarded_args
      then [] else [List.length cs]).
