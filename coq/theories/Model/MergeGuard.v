(* Hand model of the test that guards extend merging in ViewRepresentation.extend_parsed_ (view_representations.py)
   and of the window bookkeeping of ExtendNode.__init__.  Tied to the code by the correspondence run of
   harness/props/C06.py (two chained extends on the real builder: merged or not). *)
From Coq Require Import List Bool String.
Import ListNotations.

(* the window arguments of one extend call after _work_col_group_arg: partition_by is the number 1 or a list *)
Record wargs := mkwargs { a_one : bool; a_part : list string; a_order : list string; a_rev : list string }.

(* what an ExtendNode remembers: windowed_situation, partition_by (a list: the number 1 is stored as []), order_by, reverse *)
Record wnode := mkwnode { n_windowed : bool; n_part : list string; n_order : list string; n_rev : list string }.

Definition nonempty (l : list string) : bool := match l with [] => false | _ => true end.
Fixpoint strs_eqb (a b : list string) : bool :=
  match a, b with
  | [], [] => true
  | x :: s, y :: t => String.eqb x y && strs_eqb s t
  | _, _ => false
  end.
Definition eff_part (a : wargs) : list string := if a_one a then [] else a_part a.

(* ExtendNode.__init__; implies = expr_rep.implies_windowed(parsed_ops) *)
Definition node_of (implies : bool) (a : wargs) : wnode :=
  mkwnode (implies || a_one a || nonempty (eff_part a) || nonempty (a_order a)) (eff_part a) (a_order a) (a_rev a).

(* extend_parsed_: compatible_partition and same_windowing and order_by == self.order_by and reverse == self.reverse *)
Definition merge_guard (implies_new : bool) (a : wargs) (self : wnode) : bool :=
  let compatible_partition :=
    (negb (a_one a) && strs_eqb (a_part a) (n_part self))
    || ((a_one a || negb (nonempty (a_part a))) && negb (nonempty (n_part self))) in
  let new_windowed := implies_new || a_one a || nonempty (eff_part a) || nonempty (a_order a) in
  compatible_partition && Bool.eqb new_windowed (n_windowed self)
  && strs_eqb (a_order a) (n_order self) && strs_eqb (a_rev a) (n_rev self).

(* the whole decision of extend_parsed_ for an ExtendNode `self` with assignments ops1: merged assignments or None *)
Definition merged_window (implies_merged : bool) (a : wargs) : wnode := node_of implies_merged a.
