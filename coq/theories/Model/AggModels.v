(* C05 -- aggregates (project), windowed aggregates (extend with partition_by) and ordered window functions (extend with
   partition_by + order_by): the SQL templates of sql_model.py with hand models of the engines' aggregate functions, and
   hand models of what pandas groupby.agg / groupby.transform and the Polars expressions compute.  "Modelled, not
   verified": every entry is run against the real libraries on all small partitions by harness/props/C05.py.
   A group / ordered partition is the list of the argument column's cells (in window order).  No proofs here. *)
From Coq Require Import List Bool ZArith QArith Qround Qabs String Ascii.
Import ListNotations.
From DA Require Import Model.Scalar Model.SqlTemplates Model.ScalarBackends.
Local Open Scope string_scope.

Inductive acls := CProject | CGroup | CWindow.       (* catalogue classes p / up, g, w *)

(* the documented meaning of one method over one group, as one output cell per output row *)
Definition spec_cls (mf : string -> Q -> option Q) (c : acls) (m : string) (vals : list sval) : option (list sval) :=
  match c with
  | CProject => option_map (fun v => [v]) (spec_agg mf m vals)
  | CGroup => option_map (fun v => map (fun _ => v) vals) (spec_agg mf m vals)
  | CWindow => spec_win m vals
  end.

(* ------------------------------------------------------------------ SQL *)
(* AGG(row-expression), optionally compared with 1: (AGG(...) >= 1) *)
Record aggtmpl := mk_aggtmpl { ag_fn : string; ag_row : sqlexpr -> sqlexpr; ag_ge1 : bool }.
Definition case_1_0 (c : sqlexpr) : sqlexpr := QCase [(c, lit_text "1" (SNum 1))] (lit_text "0" (SNum 0)).
Definition fmt_agg (d : dialect) (m : string) : option aggtmpl :=
  if String.eqb m "sum" then Some (mk_aggtmpl "SUM" (fun x => x) false)
  else if String.eqb m "mean" then Some (mk_aggtmpl "AVG" (fun x => x) false)                       (* _db_mean_expr *)
  else if String.eqb m "max" then Some (mk_aggtmpl "MAX" (fun x => x) false)
  else if String.eqb m "min" then Some (mk_aggtmpl "MIN" (fun x => x) false)
  else if String.eqb m "count" then Some (mk_aggtmpl "SUM" (fun x => case_1_0 (QIsNotNull x)) false) (* _db_count_expr *)
  else if String.eqb m "size" || String.eqb m "_size" then Some (mk_aggtmpl "SUM" (fun _ => lit_text "1" (SNum 1)) false)   (* _db_size_expr; _size -> SIZE *)
  else if String.eqb m "nunique" then Some (mk_aggtmpl "COUNT(DISTINCT" (fun x => QParen x) false)     (* _db_nunique_expr *)
  else if String.eqb m "any" then Some (mk_aggtmpl "MAX" (fun x => case_1_0 x) true)                   (* _any_expr: x.where(1, 0).max() >= 1 *)
  else if String.eqb m "all" then Some (mk_aggtmpl "MIN" (fun x => case_1_0 x) true)                   (* _all_expr *)
  else if String.eqb m "median" then Some (mk_aggtmpl "MEDIAN" (fun x => x) false)
  else if String.eqb m "std" then Some (mk_aggtmpl (match d with DSqlite => "STD" | DPg => "STDDEV_SAMP" end) (fun x => x) false)
  else if String.eqb m "var" then Some (mk_aggtmpl (match d with DSqlite => "VAR" | DPg => "VAR_SAMP" end) (fun x => x) false)
  else if String.eqb m "any_value" then Some (mk_aggtmpl "MAX" (fun x => x) false)                     (* _any_value_expr *)
  else None.
Definition render_agg (t : aggtmpl) (col : sqlexpr) : string :=
  let core := if String.eqb (ag_fn t) "COUNT(DISTINCT" then "COUNT(DISTINCT " ++ render (ag_row t col) ++ ")"
              else ag_fn t ++ "(" ++ render (ag_row t col) ++ ")" in
  if ag_ge1 t then "(" ++ core ++ " >= 1)" else core.

(* engine aggregate functions over the per-row values; NULLs are skipped; numbers only (others not modelled) *)
Definition sql_present (l : list sval) : list sval := filter (fun v => match v with SNull => false | _ => true end) l.
Definition eng_agg (mf : string -> Q -> option Q) (d : dialect) (fn : string) (rows : list sval) : option sval :=
  match all_fin (sql_present rows) with
  | None => None
  | Some qs =>
      if String.eqb fn "SUM" then Some (match qs with [] => SNull | _ => SNum (qsum qs) end)         (* sum() of no rows is NULL *)
      else if String.eqb fn "AVG" then Some (match qs with [] => SNull | _ => SNum (qmean qs) end)
      else if String.eqb fn "MAX" then Some (match qfold1 qmax2 qs with Some v => SNum v | None => SNull end)
      else if String.eqb fn "MIN" then Some (match qfold1 qmin2 qs with Some v => SNum v | None => SNull end)
      else if String.eqb fn "COUNT(DISTINCT" then Some (nat_sv (List.length (qdistinct qs)))
      else match d with
      | DSqlite =>       (* SQLite.py user aggregates MedianAgg / SampVarDevAgg / SampStdDevAgg (CollectingAgg skips None, NaN, inf) *)
          if String.eqb fn "MEDIAN" then Some (match qs with [] => SNull | _ => SNum (qmedian qs) end)
          else if String.eqb fn "VAR" then Some (if (2 <=? List.length qs)%nat then SNum (qvar qs) else SNull)
          else if String.eqb fn "STD" then
            (if (2 <=? List.length qs)%nat then option_map SNum (mf "sqrt" (qvar qs)) else Some SNull)
          else None
      | DPg =>           (* var_samp / stddev_samp: NULL for fewer than two non-null inputs *)
          if String.eqb fn "VAR_SAMP" then Some (if (2 <=? List.length qs)%nat then SNum (qvar qs) else SNull)
          else if String.eqb fn "STDDEV_SAMP" then
            (if (2 <=? List.length qs)%nat then option_map SNum (mf "sqrt" (qvar qs)) else Some SNull)
          else None
      end
  end.

Section AggSem.
  Variable mf : string -> Q -> option Q.
  Variable mf2 : string -> Q -> Q -> option Q.
  Variable vr : variant.

  Definition sem_agg (d : dialect) (t : aggtmpl) (vals : list sval) : option sval :=
    match all_some (map (fun v => sem mf mf2 d vr (ag_row t (QAtom false "" (enc d v)))) vals) with
    | Some rows =>
        match eng_agg mf d (ag_fn t) rows with
        | Some r => if ag_ge1 t then sql_cmp d CGe r (SNum 1) else Some r
        | None => None end
    | None => None end.

  Fixpoint prefixes {A} (l : list A) : list (list A) :=       (* non-empty prefixes, shortest first *)
    match l with [] => [] | x :: t => [x] :: map (cons x) (prefixes t) end.

  (* ordered window: the default frame (RANGE UNBOUNDED PRECEDING .. CURRENT ROW) over distinct order keys is the prefix *)
  Definition sql_window (d : dialect) (m : string) (vals : list sval) : option (list sval) :=
    let running fn := all_some (map (fun p => sem_agg d (mk_aggtmpl fn (fun x => x) false) p) (prefixes vals)) in
    if String.eqb m "cumsum" then running "SUM"                       (* op_replacements: cumsum -> SUM *)
    else if String.eqb m "cummax" then running "MAX"
    else if String.eqb m "cummin" then running "MIN"
    else if String.eqb m "cumcount" then
      all_some (map (fun p => sem_agg d (mk_aggtmpl "SUM" (fun x => case_1_0 (QIsNotNull x)) false) p) (prefixes vals))
    else if String.eqb m "_row_number" then Some (iota 1 (List.length vals))                     (* ROW_NUMBER() *)
    else if String.eqb m "shift" then                                                              (* _db_lag_expr: LAG(x, 1) *)
      Some (match vals with [] => [] | _ => SNull :: map (enc d) (removelast vals) end)
    else None.

  (* dt = the dialect whose templates are used, de = the engine (they differ only when PostgreSQL text runs on SQLite) *)
  Definition agg_sql_on (dt de : dialect) (c : acls) (m : string) (vals : list sval) : option (list sval) :=
    match c with
    | CProject => match fmt_agg dt m with Some t => option_map (fun v => [v]) (sem_agg de t vals) | None => None end
    | CGroup => match fmt_agg dt m with Some t => option_map (fun v => map (fun _ => v) vals) (sem_agg de t vals) | None => None end
    | CWindow => sql_window de m vals
    end.
  Definition agg_sql (d : dialect) := agg_sql_on d d.
End AggSem.

(* ------------------------------------------------------------------ pandas: groupby(...)[col].agg(op) / .transform(op) *)
Definition np_present (l : list sval) : list sval := filter (fun v => negb (missing v)) l.
Definition pd_agg1 (mf : string -> Q -> option Q) (m : string) (l : list sval) : option sval :=
  if String.eqb m "size" || String.eqb m "_size" then Some (nat_sv (List.length l))
  else if String.eqb m "count" then Some (nat_sv (List.length (np_present l)))
  else if String.eqb m "any" then option_map (fun bs => SBool (existsb (fun x => x) bs)) (all_bool l)
  else if String.eqb m "all" then option_map (fun bs => SBool (forallb (fun x => x) bs)) (all_bool l)
  else match all_fin (np_present l) with
  | None => None
  | Some qs =>
      if String.eqb m "sum" then Some (SNum (qsum qs))                                              (* skipna: an all-missing group sums to 0 *)
      else if String.eqb m "mean" then Some (match qs with [] => SNull | _ => SNum (qmean qs) end)
      else if String.eqb m "max" then Some (match qfold1 qmax2 qs with Some v => SNum v | None => SNull end)
      else if String.eqb m "min" then Some (match qfold1 qmin2 qs with Some v => SNum v | None => SNull end)
      else if String.eqb m "nunique" then Some (nat_sv (List.length (qdistinct qs)))               (* dropna=True *)
      else if String.eqb m "median" then Some (match qs with [] => SNull | _ => SNum (qmedian qs) end)
      else if String.eqb m "var" then Some (if (2 <=? List.length qs)%nat then SNum (qvar qs) else SNull)   (* ddof=1 *)
      else if String.eqb m "std" then (if (2 <=? List.length qs)%nat then option_map SNum (mf "sqrt" (qvar qs)) else Some SNull)
      else if String.eqb m "any_value" then Some (match qs with [] => SNull | x :: _ => SNum x end)          (* transform_op_map: first *)
      else None
  end.
Fixpoint positions (n : nat) (l : list sval) : list sval := match l with [] => [] | _ :: t => nat_sv n :: positions (S n) t end.
Definition pd_window (m : string) (l : list sval) : option (list sval) :=
  (* cumulative transforms and rank, modelled for groups without missing cells *)
  if String.eqb m "cumsum" then option_map (fun qs => map SNum (cum Qplus qs)) (all_fin l)
  else if String.eqb m "cumprod" then option_map (fun qs => map SNum (cum Qmult qs)) (all_fin l)
  else if String.eqb m "cummax" then option_map (fun qs => map SNum (cum (fun a x => qmax2 a x) qs)) (all_fin l)
  else if String.eqb m "cummin" then option_map (fun qs => map SNum (cum (fun a x => qmin2 a x) qs)) (all_fin l)
  else if String.eqb m "cumcount" then Some (positions 0 l)                   (* SeriesGroupBy.cumcount(): 0-based position in the group *)
  else if String.eqb m "_row_number" then Some (positions 1 l)                (* groupby.cumcount() + 1 *)
  else if String.eqb m "shift" then Some (match l with [] => [] | _ => SNull :: removelast l end)
  else if String.eqb m "first" then                                           (* first non-missing value of the group *)
    Some (map (fun _ => match np_present l with [] => SNull | x :: _ => x end) l)
  else if String.eqb m "last" then
    Some (map (fun _ => match rev (np_present l) with [] => SNull | x :: _ => x end) l)
  else if String.eqb m "rank" then      (* method="average": modelled for pairwise distinct values *)
    match all_fin l with Some qs => if qnodup qs then Some (map (fun x => SNum (qrank qs x)) qs) else None | None => None end
  else if String.eqb m "ffill" then Some (ffill_from SNull l)
  else if String.eqb m "bfill" then Some (rev (ffill_from SNull (rev l)))
  else None.
Definition agg_pd (mf : string -> Q -> option Q) (c : acls) (m : string) (vals : list sval) : option (list sval) :=
  match c with
  | CProject => option_map (fun v => [v]) (pd_agg1 mf m vals)
  | CGroup => option_map (fun v => map (fun _ => v) vals) (pd_agg1 mf m vals)
  | CWindow => pd_window m vals
  end.

(* ------------------------------------------------------------------ Polars: group_by(...).agg(expr) / expr.over(...) *)
Definition pl_agg1 (mf : string -> Q -> option Q) (m : string) (l : list sval) : option sval :=
  if String.eqb m "size" || String.eqb m "_size" then Some (nat_sv (List.length l))
  else if String.eqb m "count" then Some (nat_sv (List.length (np_present l)))      (* when(is_null | is_nan) 0 else 1, summed *)
  else if String.eqb m "any" then option_map (fun bs => SBool (existsb (fun x => x) bs)) (all_bool l)
  else if String.eqb m "all" then option_map (fun bs => SBool (forallb (fun x => x) bs)) (all_bool l)
  else match all_fin (sql_present l) with                (* nulls are skipped; NaN not modelled *)
  | None => None
  | Some qs =>
      if String.eqb m "sum" then Some (SNum (qsum qs))
      else if String.eqb m "mean" then Some (match qs with [] => SNull | _ => SNum (qmean qs) end)
      else if String.eqb m "max" then Some (match qfold1 qmax2 qs with Some v => SNum v | None => SNull end)
      else if String.eqb m "min" then Some (match qfold1 qmin2 qs with Some v => SNum v | None => SNull end)
      else if String.eqb m "nunique" then Some (nat_sv (List.length (qdistinct qs)))      (* x.drop_nulls().n_unique() *)
      else if String.eqb m "median" then Some (match qs with [] => SNull | _ => SNum (qmedian qs) end)
      else if String.eqb m "var" then Some (if (2 <=? List.length qs)%nat then SNum (qvar qs) else SNull)
      else if String.eqb m "std" then (if (2 <=? List.length qs)%nat then option_map SNum (mf "sqrt" (qvar qs)) else Some SNull)
      else if String.eqb m "any_value" then Some (match qfold1 qmin2 qs with Some v => SNum v | None => SNull end)   (* x.min() *)
      else None
  end.
(* window functions: cumsum / cummax / cummin / cumprod / cumcount / _row_number use Expr.cumsum etc., which Polars 1.x
   no longer has (AttributeError): they raise *)
Definition pl_window (m : string) (l : list sval) : option (list sval) :=
  if String.eqb m "shift" then Some (match l with [] => [] | _ => SNull :: removelast l end)
  else if String.eqb m "first" then Some (map (fun _ => match sql_present l with [] => SNull | x :: _ => x end) l)   (* x.drop_nulls().first() *)
  else if String.eqb m "last" then Some (map (fun _ => last (sql_present l) SNull) l)                                 (* x.drop_nulls().last() *)
  else if String.eqb m "rank" then
    match all_fin l with Some qs => if qnodup qs then Some (map (fun x => SNum (qrank qs x)) qs) else None | None => None end
  else if String.eqb m "ffill" then Some (ffill_from SNull l)
  else if String.eqb m "bfill" then Some (rev (ffill_from SNull (rev l)))
  else None.
Definition agg_pl (mf : string -> Q -> option Q) (c : acls) (m : string) (vals : list sval) : option (list sval) :=
  match c with
  | CProject => option_map (fun v => [v]) (pl_agg1 mf m vals)
  | CGroup => option_map (fun v => map (fun _ => v) vals) (pl_agg1 mf m vals)
  | CWindow => pl_window m vals
  end.
