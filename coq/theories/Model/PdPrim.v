(* PEXEC: hand models of the pandas PRIMITIVES that data_algebra/pandas_base.py calls ("modelled, not verified").
   Every model is stated once, here, with the pandas behaviour it stands for; harness/props/PEXEC.py calls each real
   primitive on random small frames (nulls, duplicates, ties, empty) and compares with these definitions inside Coq on every
   run (Model/PandasExecCases.v, prim_ok).  Model/PandasExec.v transcribes the data_algebra glue on top of them.

   A frame is a `table` of Base/Val.v (ordered column names + rows as cell lists); NaN / None / NaT are the one value VNull.
   Row LABELS are not represented: every frame that reaches a label-sensitive pandas call in pandas_base.py carries the
   default RangeIndex (this is C18's theorem px_default_index over Model/PandasIndex.v: _table_step / clean_copy /
   drop_indices reset the labels, so column assignment and concat(axis=1) are positional).  Group-key indexes (the result of
   groupby(...).agg) ARE represented, see `gseries`.
   A call that raises in pandas (KeyError for a missing column, ValueError for a length mismatch, MergeError for duplicate
   result columns ...) is None.  No proofs in this file. *)
From Coq Require Import List Bool Arith ZArith QArith String Ascii.
Import ListNotations.
From DA Require Import Base.PyRT Base.Val Model.Sem.
Local Open Scope string_scope.
Local Open Scope list_scope.

Definition obind {X Y} (o : option X) (f : X -> option Y) : option Y := match o with Some x => f x | None => None end.
Notation "x <- e ;; k" := (obind e (fun x => k)) (at level 61, e at next level, right associativity).

Definition nrows (t : table) : nat := List.length (rows t).
Definition ncols (t : table) : nat := List.length (cols t).
Definition vnat (n : nat) : val := VNum (inject_Z (Z.of_nat n)).
Definition vone : val := vnat 1.

(* ------------------------------------------------------------------ construction *)
(* pd.DataFrame({k: [] for k in names}) : the named columns, no rows *)
Definition pd_empty_frame (names : list string) : table := mktable names [].
(* pd.DataFrame({}, index=range(n)) : no columns, n rows *)
Definition pd_no_columns (n : nat) : table := mktable [] (repeat [] n).
(* pd.DataFrame({k: list_k}) from equal-length lists (ValueError otherwise); dict keys are distinct *)
Fixpoint transpose_cols (n : nat) (columns : list (list val)) : list (list val) :=
  match n with
  | O => []
  | S k => map (fun c => hd VNull c) columns :: transpose_cols k (map (fun c => tl c) columns)
  end.
Definition pd_frame_of_columns (n : nat) (kvs : list (string * list val)) : option table :=
  if forallb (fun kv => Nat.eqb (List.length (snd kv)) n) kvs then Some (mktable (map fst kvs) (transpose_cols n (map snd kvs))) else None.

(* ------------------------------------------------------------------ columns *)
(* df[c] = scalar : broadcast; an existing column is overwritten IN PLACE (position kept), a new one is appended last *)
Definition pd_set_scalar (c : string) (v : val) (t : table) : table :=
  mktable (add_end (cols t) c) (map (fun r => set_cell (cols t) r c v) (rows t)).
(* df[c] = values : same placement rule; values of another length raise ValueError.  (Equal default labels: positional.) *)
Definition pd_set_col (c : string) (vs : list val) (t : table) : option table :=
  if Nat.eqb (List.length vs) (nrows t)
  then Some (mktable (add_end (cols t) c) (map (fun rv => set_cell (cols t) (fst rv) c (snd rv)) (combine (rows t) vs)))
  else None.
(* df[c] (a Series) : KeyError when absent *)
Definition pd_col (c : string) (t : table) : option (list val) :=
  if mem c (cols t) then Some (getcol t c) else None.
(* df[cs] / df.loc[:, cs] : the named columns in the REQUESTED order; KeyError when one is absent *)
Definition pd_select (cs : list string) (t : table) : option table :=
  if subset cs (cols t) then Some (sem_select_cols cs t) else None.
(* del df[c] / df.drop(c, axis=1) : KeyError when absent; the other columns keep their order *)
Definition pd_del (c : string) (t : table) : option table :=
  if mem c (cols t) then Some (sem_select_cols (remove_elem c (cols t)) t) else None.
(* df.rename(columns=mapping) : mapping is OLD -> NEW (a dict: the first entry for a key); names not in the mapping stay *)
Definition pd_rename (m : list (string * string)) (t : table) : table :=
  mktable (map (fun c => match dict_get m c with Some n => n | None => c end) (cols t)) (rows t).

(* ------------------------------------------------------------------ rows *)
(* df.loc[mask, :] with a boolean mask of the frame's length : the rows where the mask is True, in order *)
Definition pd_mask_rows (mask : list val) (t : table) : option table :=
  if Nat.eqb (List.length mask) (nrows t)
  then Some (mktable (cols t) (map fst (filter (fun rm => truth (snd rm)) (combine (rows t) mask))))
  else None.
(* df.iloc[range(n), :] : the first n rows *)
Definition pd_head (n : nat) (t : table) : table := mktable (cols t) (firstn n (rows t)).
(* reset_index(drop=True) / clean_copy / drop_indices : only the labels change, and labels are not represented *)
Definition pd_reset_index (t : table) : table := t.
(* the labels of a frame that has just been reset: 0 .. n-1 *)
Definition pd_range_index (t : table) : list val := map vnat (seq 0 (nrows t)).

(* df.sort_values(by=keys, ascending=[...]) : keys = (column, ascending?).  na_position='last' applies to ascending AND descending
   keys; numbers compare by value, strings by code point: the comparison is Sem.row_le under the Pandas flavour (nulls last in
   both directions).  KeyError when a key is absent.
   WHICH sorted permutation comes back: several keys go through a STABLE lexsort; a single key goes through numpy's default
   argsort, which is NOT stable (vectorised quicksort; observed: tied rows swapped in a 10-row frame).  So the sorting routine is
   a parameter `srt`; the theorems of Proofs/PandasExecP*.v hold for EVERY srt that returns a sorted permutation (sorter_ok),
   and the correspondence runs with the stable sort on inputs without single-key ties. *)
Definition sorter := (list val -> list val -> bool) -> list (list val) -> list (list val).
Definition pd_sort_keys (keys : list (string * bool)) : list (string * bool) := map (fun ka => (fst ka, negb (snd ka))) keys.
Definition pd_sort_values_with (srt : sorter) (keys : list (string * bool)) (t : table) : option table :=
  if subset (map fst keys) (cols t)
  then Some (mktable (cols t) (srt (row_le fl_pandas (cols t) (pd_sort_keys keys)) (rows t)))
  else None.
Definition stable_sorter : sorter := fun le l => stable_sort le l.
Definition pd_sort_values := pd_sort_values_with stable_sorter.

(* pd.concat([a, b], axis=0, ignore_index=True, sort=False) : columns of a, then the new ones of b; rows of a then rows of b,
   matched BY NAME, null where a frame lacks a column *)
Definition pd_concat_rows (a b : table) : table :=
  let out := cols a ++ filter (fun c => negb (mem c (cols a))) (cols b) in
  mktable out (map (fun r => map (fun c => if mem c (cols a) then get (cols a) r c else VNull) out) (rows a)
               ++ map (fun r => map (fun c => if mem c (cols b) then get (cols b) r c else VNull) out) (rows b)).
(* pd.concat([a, b], axis=1) on frames with the same (default) labels : columns side by side.  Different row counts would
   outer-join the labels: not modelled (None) *)
Definition pd_concat_cols (a b : table) : option table :=
  if Nat.eqb (nrows a) (nrows b)
  then Some (mktable (cols a ++ cols b) (map (fun rr => fst rr ++ snd rr) (combine (rows a) (rows b))))
  else None.

(* ------------------------------------------------------------------ null tests and masked assignment *)
(* df[c].isnull() *)
Definition pd_isnull (c : string) (t : table) : option (list bool) := option_map (map is_null) (pd_col c t).
(* df[cs].isnull().any(axis=1) : per row, whether one of the named cells is null; KeyError when a column is absent *)
Definition pd_isnull_any (cs : list string) (t : table) : option (list bool) :=
  if subset cs (cols t) then Some (map (fun r => existsb is_null (key_of (cols t) cs r)) (rows t)) else None.
(* df.loc[mask, c] = df.loc[mask, c2] : in the rows where mask holds, column c takes the value of column c2 (same rows on both
   sides, so the label alignment is the identity); KeyError when a column is absent *)
Definition pd_loc_set_from (mask : list bool) (c c2 : string) (t : table) : option table :=
  if mem c (cols t) && mem c2 (cols t) && Nat.eqb (List.length mask) (nrows t)
  then Some (mktable (cols t) (map (fun rm => if (snd rm : bool) then set_cell (cols t) (fst rm) c (get (cols t) (fst rm) c2) else fst rm)
                                   (combine (rows t) mask)))
  else None.

(* ------------------------------------------------------------------ merge *)
(* pd.merge(left, right, how, left_on, right_on, sort=False, suffixes=("", sfx))   (pandas 3.0)
   keys     : compared column by column; NaN / None keys MATCH each other (unlike SQL)
   columns  : all left columns, then the right columns except a right key column that has the SAME NAME as the left key it is
              paired with (that pair is one column: the left value, or the right value in a row without left part); a remaining
              right column whose name also occurs on the left gets the suffix sfx (left names keep theirs: suffix "").
              MergeError when the resulting names are not distinct.
   rows     : inner - the matching pairs in an order that is NOT a function of the arguments one could rely on: pandas 3 runs a hash
                      join here, mostly "left order, each left row with its matches in right order" but not always (observed on
                      pandas 3.0.5: left keys [1;3], right keys [3;2;3] give the pairs (1,2), (1,0)).  pd_merge lists them left-major;
                      pd_merge_with arr lets an arbitrary rearrangement `arr` (Proofs: any permutation) act on the inner rows
              left  - the same, a left row without match once, right part null
              right - right order, each right row with its matches in left order, or once with left part null
              outer - ordered by the key (ascending, lexicographic over several keys, nulls last); within one key the pairs in
                      left-major order / the unmatched rows of that key in their own order.  Modelled as the stable sort by key of
                      (left-join rows ++ right-only rows). *)
Inductive merge_how := HInner | HLeft | HRight | HOuter.

Fixpoint keys_le (a b : list val) : bool :=
  match a, b with
  | x :: t, y :: u => if v_eqv x y then keys_le t u else v_le_dir false false x y
  | _, _ => true
  end.

Definition same_named_key (lon ron : list string) (c : string) : bool :=
  existsb (fun p => String.eqb (fst p) c && String.eqb (snd p) c) (combine lon ron).
Definition merge_right_cols (lon ron : list string) (rc : list string) : list string :=
  filter (fun c => negb (same_named_key lon ron c)) rc.
Definition merge_cols (lc rc lon ron : list string) (sfx : string) : list string :=
  lc ++ map (fun c => if mem c lc then String.append c sfx else c) (merge_right_cols lon ron rc).

Definition merge_pair := (option (list val) * option (list val))%type.
Definition merge_row (lc rc lon ron : list string) (p : merge_pair) : list val :=
  map (fun c => match fst p with
                | Some ra => get lc ra c
                | None => match snd p with
                          | Some rb => if same_named_key lon ron c then get rc rb c else VNull
                          | None => VNull
                          end
                end) lc
  ++ map (fun c => match snd p with Some rb => get rc rb c | None => VNull end) (merge_right_cols lon ron rc).

Definition merge_pairs (how : merge_how) (l r : table) (lon ron : list string) : list merge_pair :=
  let lk := key_of (cols l) lon in
  let rk := key_of (cols r) ron in
  let rmatches (ra : list val) := filter (fun rb => keys_eqv (lk ra) (rk rb)) (rows r) in
  let lmatches (rb : list val) := filter (fun ra => keys_eqv (lk ra) (rk rb)) (rows l) in
  let inner := flat_map (fun ra => map (fun rb => (Some ra, Some rb)) (rmatches ra)) (rows l) in
  let leftj := flat_map (fun ra => match rmatches ra with
                                   | [] => [(Some ra, None)]
                                   | ms => map (fun rb => (Some ra, Some rb)) ms
                                   end) (rows l) in
  let rightj := flat_map (fun rb => match lmatches rb with
                                    | [] => [(None, Some rb)]
                                    | ms => map (fun ra => (Some ra, Some rb)) ms
                                    end) (rows r) in
  let right_only := flat_map (fun rb => match lmatches rb with [] => [(None, Some rb)] | _ => [] end) (rows r) in
  let pair_key (p : merge_pair) := match p with
                                   | (Some ra, _) => lk ra
                                   | (None, Some rb) => rk rb
                                   | (None, None) => []
                                   end in
  match how with
  | HInner => inner
  | HLeft => leftj
  | HRight => rightj
  | HOuter => stable_sort (fun p q => keys_le (pair_key p) (pair_key q)) (leftj ++ right_only)
  end.

Fixpoint nodup_names (l : list string) : bool := match l with [] => true | x :: t => negb (mem x t) && nodup_names t end.

Definition pd_merge (how : merge_how) (l r : table) (lon ron : list string) (sfx : string) : option table :=
  if subset lon (cols l) && subset ron (cols r) && Nat.eqb (List.length lon) (List.length ron) && negb (Nat.eqb (List.length lon) 0)
  then let out := merge_cols (cols l) (cols r) lon ron sfx in
       if nodup_names out
       then Some (mktable out (map (merge_row (cols l) (cols r) lon ron) (merge_pairs how l r lon ron)))
       else None
  else None.

(* the order in which an INNER merge lists its rows is unspecified: an arbitrary rearrangement of them *)
Definition arranger := list (list val) -> list (list val).
Definition id_arranger : arranger := fun l => l.
Definition arrange (how : merge_how) (arr : arranger) (l : list (list val)) : list (list val) :=
  match how with HInner => arr l | _ => l end.
Definition pd_merge_with (arr : arranger) (how : merge_how) (l r : table) (lon ron : list string) (sfx : string) : option table :=
  option_map (fun t => mktable (cols t) (arrange how arr (rows t))) (pd_merge how l r lon ron sfx).

(* ------------------------------------------------------------------ groupby *)
(* df.groupby(keys, observed=True, dropna=False) : the groups are the distinct key tuples (a null is a key value like any other:
   dropna=False), enumerated in SORTED key order (sort=True is the default; nulls last).  A grouped object is represented by the
   key tuple of every row (`rkeys`), captured when groupby() is called. *)
Definition pd_row_keys (ks : list string) (t : table) : option (list (list val)) :=
  if subset ks (cols t) then Some (map (key_of (cols t) ks) (rows t)) else None.
Definition pd_group_keys (rkeys : list (list val)) : list (list val) := stable_sort keys_le (distinct_keys rkeys).
(* with dropna=True (the default) a group whose key contains a null is dropped *)
Definition pd_group_keys_dropna (rkeys : list (list val)) : list (list val) :=
  filter (fun k => negb (existsb is_null k)) (pd_group_keys rkeys).

(* Series.agg(name) -> scalar, for the aggregate names data_algebra passes: Sem.agg_fn under the Pandas flavour
   (sum of no values 0, count / size of nothing 0, mean / min / max of nothing NaN; nulls skipped).  Other names: not modelled *)
Definition agg_names : list string := ["sum"; "mean"; "min"; "max"; "count"; "size"].
Definition pd_series_agg (fn : string) (vs : list val) : option val :=
  if mem fn agg_names then Some (agg_fn fl_pandas fn vs) else None.

(* a Series indexed by group keys *)
Record gseries := mkgs { gs_keys : list (list val); gs_vals : list val }.
(* df.groupby(keys, ...)[col].agg(name) : one value per group, in sorted key order *)
Definition pd_grouped_agg (rkeys : list (list val)) (vals : list val) (fn : string) : option gseries :=
  if Nat.eqb (List.length rkeys) (List.length vals) && mem fn agg_names
  then let gk := pd_group_keys rkeys in
       Some (mkgs gk (map (fun k => agg_fn fl_pandas fn (map snd (filter (fun kv => keys_eqv k (fst kv)) (combine rkeys vals)))) gk))
  else None.
(* groupby(keys).size() (used by table_is_keyed_by_columns): the group sizes; dropna as given *)
Definition pd_group_sizes (dropna : bool) (rkeys : list (list val)) : list nat :=
  map (fun k => List.length (filter (fun k2 => keys_eqv k k2) rkeys))
      (if dropna then pd_group_keys_dropna rkeys else pd_group_keys rkeys).

(* groupby(keys)[col].transform(name, *args) : every row receives the value the window function gives its position inside its
   group, the group taken in FRAME order ("groupby preserves the order of rows within each group").  The functions are
   Sem.win_fn under the Pandas flavour: cumsum / cummax / cummin / cumprod skip nulls and give null at a null row, shift(n),
   rank (average, nulls unranked), first / last non-null, ffill / bfill, and the aggregates broadcast to the group.  Other
   names: not modelled (None). *)
Definition transform_names : list string :=
  ["cumsum"; "cummax"; "cummin"; "cumprod"; "cumcount"; "shift"; "rank"; "first"; "last"; "ffill"; "bfill"; "median"; "nunique"; "var";
   "sum"; "mean"; "min"; "max"; "count"; "size"].
Fixpoint pos_of_tag (i : nat) (g : list (nat * val)) : nat :=
  match g with [] => O | (j, _) :: t => if Nat.eqb j i then O else S (pos_of_tag i t) end.
Fixpoint tag_vals (i : nat) (l : list (list val * val)) : list (nat * (list val * val)) :=
  match l with [] => [] | x :: t => (i, x) :: tag_vals (S i) t end.
Definition grouped_apply (f : list val -> list val) (rkeys : list (list val)) (vals : list val) : list val :=
  let tagged := tag_vals 0 (combine rkeys vals) in
  map (fun ikv => let g := map (fun jkv => (fst jkv, snd (snd jkv)))
                               (filter (fun jkv => keys_eqv (fst (snd ikv)) (fst (snd jkv))) tagged) in
                  nth (pos_of_tag (fst ikv) g) (f (map snd g)) VNull) tagged.
Definition pd_grouped_transform (rkeys : list (list val)) (vals : list val) (fn : string) (extra : list val) : option (list val) :=
  if Nat.eqb (List.length rkeys) (List.length vals) && mem fn transform_names
  then Some (grouped_apply (win_fn fl_pandas fn extra) rkeys vals)
  else None.
(* groupby(keys).cumcount() : 0-based position of the row inside its group (frame order) *)
Definition pd_grouped_cumcount (rkeys : list (list val)) : list val :=
  grouped_apply (number_from 0) rkeys (map (fun _ => VNull) rkeys).

(* frame.reset_index(drop=False) on a frame whose index is a list of group keys: the key columns (named after the groupby keys)
   are inserted in front.  ValueError when a key name is already a column. *)
Definition pd_reset_index_insert (key_names : list string) (gkeys : list (list val)) (t : table) : option table :=
  if Nat.eqb (List.length gkeys) (nrows t)
     && forallb (fun k => Nat.eqb (List.length k) (List.length key_names)) gkeys
     && nodup_names (key_names ++ cols t)
  then Some (mktable (key_names ++ cols t) (map (fun kr => fst kr ++ snd kr) (combine gkeys (rows t))))
  else None.
(* pd.DataFrame({k: gseries_k}) for series sharing one group index, followed by reset_index(drop=False) *)
Definition pd_frame_of_gseries (key_names : list string) (gkeys : list (list val)) (kvs : list (string * list val)) : option table :=
  t <- pd_frame_of_columns (List.length gkeys) kvs ;; pd_reset_index_insert key_names gkeys t.
