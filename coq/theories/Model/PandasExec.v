(* PEXEC: step-by-step transcription of the data_algebra glue of the Pandas executor (/repo/data_algebra/pandas_base.py) over
   the primitive models of Model/PdPrim.v.  `pexec q p e` follows PandasModelBase.eval: _eval_value_source dispatches on the node
   kind; every `px_*` below is one `_*_step`, statement by statement, in the code's order, with its special cases.  A Python
   exception (raise, assert, KeyError of a pandas call) is None.

   What is NOT transcribed but reused / assumed (and said so in the evidence):
     - scalar expression evaluation: `opk.act_on(res, expr_walker=self)` (act_on_expression + impl_map) is Sem.eval_expr
       fl_pandas per row; an expression without column reference evaluates to a scalar (CScalar), any other to a Series;
     - data_algebra.util.check_columns_appear_compatible (dtype compatibility of the two sides of a join / concat): assumed to
       pass (generated inputs are typed);
     - the dict of constant stand-in columns is keyed by str(value) in Python and by the value here;
     - set iteration order (partition columns, common columns, missing group columns): the lists below enumerate in first-
       occurrence order; Proofs/PandasExecP*.v show the RESULT does not depend on it where a theorem covers the step;
     - row labels: see Model/PdPrim.v (every frame between steps has the default RangeIndex: C18).
   `pquirks` holds facts read from the source by the harness on every run (so that a repair of the code moves the model with it).
   No proofs in this file. *)
From Coq Require Import List Bool Arith ZArith QArith String Ascii Decimal DecimalString.
Import ListNotations.
From DA Require Import Base.PyRT Base.Val Model.Sem Model.PdPrim.
Local Open Scope string_scope.
Local Open Scope list_scope.

Record pquirks := mkq {
  q_keyed_dropna : bool    (* table_is_keyed_by_columns groups with the pandas default dropna=True: groups with a null key vanish *)
}.
Definition q_code : pquirks := mkq false.             (* the code since /repo db5bdc2: the check groups with dropna=False *)
Definition q_before_db5bdc2 : pquirks := mkq true.   (* before: pandas' default dropna=True *)

Definition dec (n : nat) : string := NilEmpty.string_of_uint (Nat.to_uint n).       (* Python str(n) *)
Definition sapp (a b : string) : string := String.append a b.

(* ------------------------------------------------------------------ scratch names (since /repo c06ea4b) *)
(* _unused_column_name(base, taken): base, prefixed with "_" until it is none of the names in use.  The Python loop is
   unbounded; |taken|+1 rounds always suffice (pigeonhole, Proofs/PandasExecP1.v), which is the fuel here. *)
Fixpoint unused_from (fuel : nat) (name : string) (taken : list string) : string :=
  match fuel with
  | O => name
  | S k => if mem name taken then unused_from k (sapp "_" name) taken else name
  end.
Definition unused_column_name (base : string) (taken : list string) : string := unused_from (S (List.length taken)) base taken.

(* the base strings of every scratch name, per step (compared with the literals found by `ast` in pandas_base.py) *)
Definition base_standin : string := "_data_algebra_temp_g".
Definition base_orig_index : string := "_data_algebra_orig_index".
Definition base_extend_const : string := "data_algebra_extend_temp_col_".
Definition base_project_temp : string := "_data_table_temp_col".
Definition base_project_const : string := "data_algebra_project_temp_col_".
Definition base_merge_col : string := "data_algebra_temp_merge_col".
Definition base_right_suffix : string := "_tmp_right_col".
Definition base_null_key : string := "data_algebra_temp_null_key_col".
Definition scratch_bases : list (string * list string) :=
  [("_extend_step", [base_standin; base_orig_index; base_extend_const]);
   ("_project_step", [base_project_temp; base_project_const]);
   ("_natural_join_step", [base_right_suffix; base_merge_col; base_null_key])].

(* frame calls per step in first-occurrence order (attribute calls, .loc / .iloc subscripts), then the number of column assignments
   `frame[name] = ...` and of `del frame[name]` statements; compared with what `ast` finds in pandas_base.py on every run *)
Definition pandas_calls : list (string * list string) :=
  [("_table_step", ["loc"; "clean_copy"; "[]=0"; "del=0"]);
   ("_extend_step", ["DataFrame"; "act_on"; "columns_to_frame_"; "add_data_frame_columns_to_data_frame_"; "clean_copy"; "sort_values"; "groupby"; "cumcount"; "ngroup"; "transform"; "loc"; "[]=8"; "del=1"]);
   ("_project_step", ["groupby"; "agg"; "columns_to_frame_"; "reset_index"; "drop"; "table_is_keyed_by_columns"; "[]=3"; "del=0"]);
   ("_select_rows_step", ["act_on"; "clean_copy"; "loc"; "[]=0"; "del=0"]);
   ("_select_columns_step", ["[]=0"; "del=0"]);
   ("_drop_columns_step", ["[]=0"; "del=0"]);
   ("_rename_columns_step", ["rename"; "[]=0"; "del=0"]);
   ("_map_columns_step", ["rename"; "[]=0"; "del=0"]);
   ("_order_rows_step", ["sort_values"; "drop_indices"; "clean_copy"; "iloc"; "[]=0"; "del=0"]);
   ("_natural_join_step", ["DataFrame"; "to_numpy"; "any"; "isnull"; "where"; "arange"; "merge"; "standardize_join_code_"; "drop_indices"; "loc"; "drop"; "[]=4"; "del=2"]);
   ("_concat_rows_step", ["concat"; "drop_indices"; "[]=4"; "del=0"]);
   ("columns_to_frame_", ["DataFrame"; "drop_indices"; "clean_copy"; "[]=0"; "del=0"]);
   ("add_data_frame_columns_to_data_frame_", ["clean_copy"; "iloc"; "concat"; "[]=1"; "del=1"]);
   ("table_is_keyed_by_columns", ["size"; "groupby"; "[]=0"; "del=0"])].

Section Exec.
(* the sorting routine behind DataFrame.sort_values (Model/PdPrim.v): any function returning a sorted permutation *)
Variable srt : sorter.
(* the order in which pandas.merge lists the rows of an INNER join (Model/PdPrim.v): any rearrangement *)
Variable arr : arranger.

(* ------------------------------------------------------------------ shared helpers of the executor *)
(* clean_copy / drop_indices *)
Definition clean_copy (t : table) : table := pd_reset_index t.

(* values handed to columns_to_frame_: a scalar, a Series with the frame's labels, or a Series indexed by group keys *)
Inductive cval := CScalar (v : val) | CSeries (vs : list val) | CGrouped (g : gseries).
Definition cval_len (c : cval) : option nat :=        (* none_mark_scalar_or_length *)
  match c with CScalar _ => None | CSeries vs => Some (List.length vs) | CGrouped g => Some (List.length (gs_vals g)) end.
Definition promote (n : nat) (c : cval) : option (list val) :=   (* promote_scalar_to_array(v, target_len=n) *)
  match n with
  | O => Some []
  | _ => match c with
         | CScalar v => Some (repeat v n)
         | CSeries vs => if Nat.eqb (List.length vs) n then Some vs else None
         | CGrouped g => if Nat.eqb (List.length (gs_vals g)) n then Some (gs_vals g) else None
         end
  end.
Fixpoint all_some {X} (l : list (option X)) : option (list X) :=
  match l with
  | [] => Some []
  | None :: _ => None
  | Some x :: t => match all_some t with Some r => Some (x :: r) | None => None end
  end.
(* the group index shared by the grouped values, if any *)
Fixpoint group_index (cs : list (string * cval)) : option (list (list val)) :=
  match cs with
  | [] => None
  | (_, CGrouped g) :: _ => Some (gs_keys g)
  | _ :: t => group_index t
  end.

(* a frame whose index is either the default range (None) or a list of group keys *)
Record xframe := mkxf { xf_index : option (list (list val)); xf_tab : table }.

(* columns_to_frame_(cols, target_rows=target) *)
Definition columns_to_frame (cs : list (string * cval)) (target : option nat) : option xframe :=
  if Nat.ltb (List.length cs) 1
  then match target with
       | Some n => Some (mkxf None (pd_no_columns n))        (* pd.DataFrame({}, index=range(n)); drop_indices *)
       | None => Some (mkxf None (mktable [] []))             (* pd.DataFrame({}) *)
       end
  else
    (* for v in cols.values(): ln = none_mark_scalar_or_length(v) ... *)
    match fold_left (fun (st : option (bool * option nat)) kv =>
                       st' <- st ;;
                       match cval_len (snd kv) with
                       | None => Some st'
                       | Some ln => match snd st' with
                                    | None => Some (false, Some ln)
                                    | Some tr => if Nat.eqb tr ln then Some (false, Some tr) else None      (* assert target_rows == ln *)
                                    end
                       end) cs (Some (true, target)) with
    | None => None
    | Some (was_all_scalars, target_rows) =>
        if was_all_scalars
        then let n := match target_rows with Some n => n | None => 1%nat end in
             cols' <- all_some (map (fun kv => option_map (fun vs => (fst kv, vs)) (promote n (snd kv))) cs) ;;
             t <- pd_frame_of_columns n cols' ;; Some (mkxf None (clean_copy t))
        else match target_rows with
             | None => None                                                                              (* assert target_rows is not None *)
             | Some n =>
                 if Nat.ltb n 1 then Some (mkxf None (pd_empty_frame (map fst cs)))                       (* pd.DataFrame({k: [] ...}) *)
                 else cols' <- all_some (map (fun kv => option_map (fun vs => (fst kv, vs)) (promote n (snd kv))) cs) ;;
                      t <- pd_frame_of_columns n cols' ;; Some (mkxf (group_index cs) t)                   (* pd.DataFrame(promoted_cols) *)
             end
    end.

(* add_data_frame_columns_to_data_frame_(res, transient_new_frame) *)
Definition add_columns (res new : table) : option table :=
  if Nat.ltb (ncols new) 1 then Some res
  else
    let new := if Nat.eqb (nrows res) 0 && Nat.ltb 0 (nrows new) then clean_copy (pd_head 0 new) else new in
    if Nat.eqb (nrows res) (nrows new) && Nat.ltb (ncols res) 1 then Some new
    else if Nat.ltb (ncols res) (2 * ncols new)
    then (* lots of columns path: del res[c] for the common columns, then pd.concat([res, new], axis=1) *)
      res' <- fold_left (fun acc c => r <- acc ;; pd_del c r) (set_inter (cols res) (cols new)) (Some res) ;;
      pd_concat_cols res' new
    else (* normal path: res[c] = new[c] *)
      fold_left (fun acc c => r <- acc ;; vs <- pd_col c new ;; pd_set_col c vs r) (cols new) (Some res).

(* table_is_keyed_by_columns(table, column_names=ks); None = the ValueError of max() over no groups *)
Definition table_is_keyed (q : pquirks) (ks : list string) (t : table) : option bool :=
  if Nat.ltb (nrows t) 2 then Some true
  else if negb (subset ks (cols t)) then Some false
  else if Nat.ltb (List.length ks) 1 then Some false
  else rk <- pd_row_keys ks t ;;
       match pd_group_sizes (q_keyed_dropna q) rk with
       | [] => None
       | counts => Some (Nat.leb (fold_left Nat.max counts 0%nat) 1)
       end.

(* opk.act_on(res, expr_walker=self) *)
Definition act_on (e : expr) (t : table) : cval :=
  match cols_used e with
  | [] => CScalar (eval_expr fl_pandas [] [] e)
  | _ => CSeries (map (fun r => eval_expr fl_pandas (cols t) r e) (rows t))
  end.

(* ------------------------------------------------------------------ _table_step *)
Definition px_table (cs : list string) (df : table) : option table :=
  if negb (subset cs (cols df)) then None                  (* missing required columns *)
  else res <- pd_select cs df ;;                           (* df.loc[:, columns_using] *)
       Some (clean_copy res).

(* ------------------------------------------------------------------ _extend_step *)
(* the shapes the windowed branch accepts: fn(), fn(column, literals...), fn(literal, literals...) *)
Inductive warg := WCol (c : string) | WConst (v : val).
Fixpoint all_consts (l : list expr) : option (list val) :=
  match l with
  | [] => Some []
  | EConst v :: t => option_map (cons v) (all_consts t)
  | _ => None
  end.
Definition win_shape (e : expr) : option (string * option warg * list val) :=
  match e with
  | EOp fn [] => Some (fn, None, [])
  | EOp fn (ECol c :: rest) => option_map (fun ex => (fn, Some (WCol c), ex)) (all_consts rest)
  | EOp fn (EConst v :: rest) => option_map (fun ex => (fn, Some (WConst v), ex)) (all_consts rest)
  | _ => None
  end.
Definition strip_underscore (fn : string) : option string :=
  match fn with
  | String "_" (String a rest) => Some (String a rest)      (* len(op) > 1 and op[0] == "_" *)
  | _ => None
  end.
Definition transform_op_map (fn : string) : string := if String.eqb fn "any_value" then "first" else fn.
Fixpoint const_lookup (v : val) (d : list (val * string)) : option string :=
  match d with [] => None | (v', n) :: t => if eq_dec v v' then Some n else const_lookup v t end.

(* no-row special case: pd.DataFrame({k: [] for the frame's columns and the new keys}) *)
Definition px_extend_empty (ops : list (string * expr)) (res : table) : table :=
  pd_empty_frame (fold_left add_end (map fst ops) (cols res)).

Definition px_extend_plain (ops : list (string * expr)) (res : table) : option table :=
  let new_cols := map (fun ke => (fst ke, act_on (snd ke) res)) ops in
  nf <- columns_to_frame new_cols (Some (nrows res)) ;;
  add_columns res (xf_tab nf).

(* the loop that collects the sub-frame's columns and adds the constant stand-in columns to res *)
Record wstate := mkws { ws_cols : list string; ws_temps : list (val * string); ws_names : list string; ws_res : table }.
Definition wcollect (st : wstate) (ke : string * expr) : option wstate :=
  match win_shape (snd ke) with
  | None => None                                                        (* opk must be a ColumnReference or Value *)
  | Some (_, None, _) => Some st
  | Some (_, Some (WCol c), _) =>
      Some (if mem c (ws_cols st) then st else mkws (ws_cols st ++ [c]) (ws_temps st) (ws_names st) (ws_res st))
  | Some (_, Some (WConst v), _) =>
      match const_lookup v (ws_temps st) with
      | Some _ => Some st
      | None => let name := unused_column_name (sapp base_extend_const (dec (List.length (ws_temps st)))) (ws_names st) in
                Some (mkws (ws_cols st ++ [name]) (ws_temps st ++ [(v, name)]) (ws_names st ++ [name]) (pd_set_scalar name v (ws_res st)))
      end
  end.

(* one window term: subframe[k] = ... *)
Definition wapply (rkeys : list (list val)) (standin : string) (temps : list (val * string)) (sub : table) (ke : string * expr) : option table :=
  match win_shape (snd ke) with
  | None => None
  | Some (fn, None, _) =>
      zero_op <- strip_underscore fn ;;
      if String.eqb zero_op "row_number" || String.eqb zero_op "count"
      then pd_set_col (fst ke) (map (fun v => num2 Qplus v vone) (pd_grouped_cumcount rkeys)) sub       (* opframe.cumcount() + 1 *)
      else if String.eqb zero_op "ngroup" then None                                                    (* opframe.ngroup(): not modelled *)
      else if String.eqb zero_op "size"
      then vals <- pd_col standin sub ;;
           vs <- pd_grouped_transform rkeys vals (transform_op_map zero_op) [] ;; pd_set_col (fst ke) vs sub
      else None                                                                                         (* KeyError: not implemented *)
  | Some (fn, Some (WCol c), extra) =>
      vals <- pd_col c sub ;;
      vs <- pd_grouped_transform rkeys vals (transform_op_map fn) extra ;; pd_set_col (fst ke) vs sub
  | Some (fn, Some (WConst v), extra) =>
      name <- const_lookup v temps ;;
      vals <- pd_col name sub ;;
      vs <- pd_grouped_transform rkeys vals (transform_op_map fn) extra ;; pd_set_col (fst ke) vs sub
  end.

Definition px_extend_windowed (ops : list (string * expr)) (w : window) (res : table) : option table :=
  (* scratch columns must not collide with the frame's columns or the columns produced *)
  let names0 := set_union (cols res) (map fst ops) in
  let standin_name := unused_column_name base_standin names0 in
  let names1 := names0 ++ [standin_name] in
  let orig_index_name := unused_column_name base_orig_index names1 in
  let names2 := names1 ++ [orig_index_name] in
  (* col_list: partition columns (a Python set), then the order columns not yet there *)
  let col_list0 := fold_left add_end (w_order w) (py_set (w_part w)) in
  let order_cols := col_list0 in
  st <- fold_left (fun acc ke => s <- acc ;; wcollect s ke) ops (Some (mkws col_list0 [] names2 res)) ;;
  let col_list := ws_cols st in
  let res := ws_res st in
  let ascending := map (fun c => (c, negb (mem c (w_rev w)))) col_list in
  sub <- pd_select col_list res ;;                                          (* clean_copy(res[col_list]) *)
  let sub := clean_copy sub in
  sub <- pd_set_col orig_index_name (pd_range_index sub) sub ;;             (* subframe[orig_index_name] = subframe.index *)
  sub <- (if Nat.ltb 0 (List.length order_cols)
          then option_map clean_copy (pd_sort_values_with srt ascending sub)          (* sort_values(by=col_list, ascending=ascending) *)
          else Some sub) ;;
  let sub := pd_set_scalar standin_name vone sub in                          (* subframe[standin_name] = 1 *)
  rkeys <- pd_row_keys (match w_part w with [] => [standin_name] | pb => pb end) sub ;;     (* groupby(..., observed=True, dropna=False) *)
  sub <- fold_left (fun acc ke => s <- acc ;; wapply rkeys standin_name (ws_temps st) s ke) ops (Some sub) ;;
  (* clear some temps *)
  res <- fold_left (fun acc vn => r <- acc ;; pd_del (snd vn) r) (ws_temps st) (Some res) ;;
  (* copy out results *)
  sub <- pd_sort_values_with srt [(orig_index_name, true)] sub ;;
  sub <- pd_select (map fst ops) sub ;;
  add_columns res (clean_copy sub).

Definition px_extend (ops : list (string * expr)) (windowed : bool) (w : window) (res : table) : option table :=
  if Nat.leb (nrows res) 0 then Some (px_extend_empty ops res)
  else
    let window_situation := windowed || Nat.ltb 0 (List.length (w_part w)) || Nat.ltb 0 (List.length (w_order w)) in
    if window_situation then px_extend_windowed ops w res else px_extend_plain ops res.

(* ------------------------------------------------------------------ _project_step *)
Definition agg_shape (e : expr) : option (string * option warg) :=
  match e with
  | EOp fn [] => Some (fn, None)
  | EOp fn [ECol c] => Some (fn, Some (WCol c))
  | EOp fn [EConst v] => Some (fn, Some (WConst v))
  | _ => None                                                       (* more than one argument / not a column or value: ValueError *)
  end.
Record pstate := mkps { ps_temps : list (val * string); ps_names : list string; ps_res : table }.
Definition pcollect (st : pstate) (ke : string * expr) : option pstate :=
  match agg_shape (snd ke) with
  | None => None
  | Some (_, None) | Some (_, Some (WCol _)) => Some st
  | Some (_, Some (WConst v)) =>
      match const_lookup v (ps_temps st) with
      | Some _ => Some st
      | None => let name := unused_column_name (sapp base_project_const (dec (List.length (ps_temps st)))) (ps_names st) in
                Some (mkps (ps_temps st ++ [(v, name)]) (ps_names st ++ [name]) (pd_set_scalar name v (ps_res st)))
      end
  end.
(* res[value_name].agg(transform_op) on the frame (a scalar) or on the groupby object (a Series indexed by the group keys) *)
Definition agg_on (rkeys : option (list (list val))) (vals : list val) (fn : string) : option cval :=
  match rkeys with
  | None => option_map CScalar (pd_series_agg fn vals)
  | Some rk => option_map CGrouped (pd_grouped_agg rk vals fn)
  end.
Definition pagg (rkeys : option (list (list val))) (temps : list (val * string)) (temp_col : string) (res : table) (ke : string * expr)
  : option (string * cval) :=
  match agg_shape (snd ke) with
  | None => None
  | Some (fn, Some (WCol c)) => vals <- pd_col c res ;; v <- agg_on rkeys vals (transform_op_map fn) ;; Some (fst ke, v)
  | Some (fn, Some (WConst v)) => name <- const_lookup v temps ;; vals <- pd_col name res ;;
                                  x <- agg_on rkeys vals (transform_op_map fn) ;; Some (fst ke, x)
  | Some (fn, None) => z <- strip_underscore fn ;; vals <- pd_col temp_col res ;;
                       x <- agg_on rkeys vals (transform_op_map z) ;; Some (fst ke, x)
  end.

Definition px_project (q : pquirks) (ops : list (string * expr)) (gb : list string) (res : table) : option table :=
  let names0 := set_union (cols res) (map fst ops) in
  let temp_col_name := unused_column_name base_project_temp names0 in
  let names1 := names0 ++ [temp_col_name] in
  st <- fold_left (fun acc ke => s <- acc ;; pcollect s ke) ops (Some (mkps [] names1 res)) ;;
  let res := pd_set_scalar temp_col_name vone (ps_res st) in                                   (* res[temp_col_name] = 1 *)
  rkeys <- (match gb with [] => Some None | _ => option_map Some (pd_row_keys gb res) end) ;;  (* res.groupby(group_by, observed=True, dropna=False) *)
  cols' <- (match ops with
            | [] => vals <- pd_col temp_col_name res ;; x <- agg_on rkeys vals "sum" ;; Some [(temp_col_name, x)]
            | _ => all_some (map (pagg rkeys (ps_temps st) temp_col_name res) ops)
            end) ;;
  xf <- columns_to_frame cols' None ;;
  (* res.reset_index(drop=(len(group_by) < 1) or (res.shape[0] <= 0)) : the grouping variables are in the index *)
  let drop := Nat.ltb (List.length gb) 1 || Nat.leb (nrows (xf_tab xf)) 0 in
  res <- (if drop then Some (xf_tab xf)
          else match xf_index xf with
               | Some gk => pd_reset_index_insert gb gk (xf_tab xf)
               | None => None                                  (* a default index would be inserted as a column "index": not reachable *)
               end) ;;
  let missing_group_cols := set_diff (py_set gb) (cols res) in
  res <- (if Nat.ltb 0 (nrows res)
          then if Nat.eqb (List.length missing_group_cols) 0 then Some res else None             (* Missing column groups *)
          else fold_left (fun acc g => r <- acc ;; pd_set_col g [] r) missing_group_cols (Some res)) ;;   (* res[g] = [] *)
  res <- (if mem temp_col_name (cols res) then pd_del temp_col_name res else Some res) ;;
  keyed <- table_is_keyed q gb res ;;
  if keyed then Some res else None.                                                              (* result wasn't keyed by group_by columns *)

(* ------------------------------------------------------------------ _select_rows_step *)
Definition px_select_rows (x : expr) (res : table) : option table :=
  if Nat.ltb (nrows res) 1 then Some res
  else match act_on x res with
       | CSeries selection => r <- pd_mask_rows selection res ;; Some (clean_copy r)      (* clean_copy(res.loc[selection, :]) *)
       | _ => None                                                                       (* a scalar selection: not modelled *)
       end.

(* ------------------------------------------------------------------ column steps *)
Definition px_select_cols (cs : list string) (res : table) : option table := pd_select cs res.           (* res[op.column_selection] *)
Definition px_drop_cols (ds : list string) (res : table) : option table :=
  pd_select (filter (fun c => negb (mem c ds)) (cols res)) res.
(* Sem's maps are NEW -> OLD; op.reverse_mapping / MapColumnsNode.column_remapping are OLD -> NEW *)
Definition old_to_new (m : list (string * string)) : list (string * string) := map (fun no => (snd no, fst no)) m.
Definition px_rename (m : list (string * string)) (res : table) : option table := Some (pd_rename (old_to_new m) res).
Definition px_map_cols (m : list (string * string)) (dels : list string) (res : table) : option table :=
  let res := pd_rename (old_to_new m) res in
  if Nat.ltb 0 (List.length dels) then pd_select (filter (fun c => negb (mem c dels)) (cols res)) res else Some res.

(* ------------------------------------------------------------------ _order_rows_step *)
Definition px_order (cs rev : list string) (limit : option nat) (res : table) : option table :=
  res <- (if Nat.ltb 1 (nrows res)
          then option_map clean_copy (pd_sort_values_with srt (map (fun c => (c, negb (mem c rev))) cs) res)      (* sort_values(...); drop_indices *)
          else Some res) ;;
  match limit with
  | Some n => if Nat.ltb n (nrows res) then Some (clean_copy (pd_head n res)) else Some res                (* res.iloc[range(op.limit), :] *)
  | None => Some res
  end.

(* ------------------------------------------------------------------ _natural_join_step *)
(* declared columns of a natural_join node: NaturalJoinNode.__init__ re-uses a source's tuple when it has the same SET *)
Definition join_declared (ca cb : list string) : list string :=
  let u := ca ++ filter (fun c => negb (mem c ca)) cb in
  if set_eqb u ca then ca else if set_eqb u cb then cb else u.
Fixpoint declared_cols (p : op) : list string :=
  match p with
  | OJoin a b _ _ _ => join_declared (declared_cols a) (declared_cols b)
  | OTable _ cs => cs
  | OExtend s ops _ _ => ext_cols (declared_cols s) (map fst ops)
  | OProject _ ops gb => gb ++ map fst ops
  | OSelectRows s _ => declared_cols s
  | OSelectCols _ cs => cs
  | ODropCols s ds => filter (fun c => negb (mem c ds)) (declared_cols s)
  | ORename s m => map (rename_col m) (declared_cols s)
  | OMapCols s m dels => filter (fun c => negb (mem c dels)) (map (rename_col m) (declared_cols s))
  | OOrder s _ _ _ => declared_cols s
  | OConcat a _ idc _ _ => declared_cols a ++ (match idc with Some c => [c] | None => [] end)
  end.

Definition how_of (jt : jointype) : merge_how :=          (* standardize_join_code_: full -> outer, cross -> inner *)
  match jt with JInner => HInner | JLeft => HLeft | JRight => HRight | JFull => HOuter end.
(* right_suffix = "_tmp_right_col"; while any((c + right_suffix) in names_in_use for c in common_cols): right_suffix += "_".
   The loop ends once the suffix is longer than every name in use; that bound is the fuel. *)
Fixpoint suffix_from (fuel : nat) (sfx : string) (common names : list string) : string :=
  match fuel with
  | O => sfx
  | S k => if existsb (fun c => mem (sapp c sfx) names) common then suffix_from k (sapp sfx "_") common names else sfx
  end.
Definition max_len (names : list string) : nat := fold_left Nat.max (map String.length names) 0%nat.
Definition right_suffix (common names : list string) : string := suffix_from (S (max_len names)) base_right_suffix common names.

(* numpy.where(null_rows, numpy.arange(n) + 1, 0) and its negative twin: a marker that no two rows with a null key share *)
Definition vint (z : Z) : val := VNum (inject_Z z).
Definition marker_left (mask : list bool) : list val :=
  map (fun ib : nat * bool => if snd ib then vint (Z.of_nat (S (fst ib))) else vint 0) (combine (seq 0 (List.length mask)) mask).
Definition marker_right (mask : list bool) : list val :=
  map (fun ib : nat * bool => if snd ib then vint (- Z.of_nat (S (fst ib))) else vint 0) (combine (seq 0 (List.length mask)) mask).

(* one round of the coalescing loop: a suffixed right copy, where merge produced one, is folded into its column and dropped *)
Definition jstep (sfx : string) (acc : option table) (c : string) : option table :=
  r <- acc ;;
  if mem (sapp c sfx) (cols r)
  then is_null <- pd_isnull c r ;;
       r <- pd_loc_set_from is_null c (sapp c sfx) r ;;      (* res.loc[is_null, c] = res.loc[is_null, c + right_suffix] *)
       pd_del (sapp c sfx) r                                  (* res.drop(c + right_suffix, axis=1) *)
  else Some r.

Definition px_join_gen (merge : merge_how -> table -> table -> list string -> list string -> string -> option table)
    (declared : list string) (on_a on_b : list string) (jt : jointype) (left right : table) : option table :=
  if Nat.eqb (nrows left) 0 && Nat.eqb (nrows right) 0
  then Some (pd_empty_frame declared)                                      (* pd.DataFrame({k: [] for k in op.columns_produced()}) *)
  else
    let common_cols := set_inter (cols left) (cols right) in
    let names_in_use := set_union (cols left) (cols right) in
    let sfx := right_suffix common_cols names_in_use in
    let scratch := match on_a with [] => Some (unused_column_name base_merge_col names_in_use) | _ => None end in
    let on_a' := match scratch with Some s => [s] | None => on_a end in
    let on_b' := match scratch with Some s => [s] | None => on_b end in
    let left := match scratch with Some s => pd_set_scalar s vone left | None => left end in
    let right := match scratch with Some s => pd_set_scalar s vone right | None => right end in
    (* a null key matches nothing in SQL, pandas.merge pairs null keys: rows with a null key get a marker no other row has *)
    null_left <- pd_isnull_any on_a' left ;;
    null_right <- pd_isnull_any on_b' right ;;
    let null_key := if existsb (fun b => b) null_left && existsb (fun b => b) null_right
                    then Some (unused_column_name base_null_key names_in_use) else None in
    left <- (match null_key with Some nk => pd_set_col nk (marker_left null_left) left | None => Some left end) ;;
    right <- (match null_key with Some nk => pd_set_col nk (marker_right null_right) right | None => Some right end) ;;
    let on_a'' := match null_key with Some nk => on_a' ++ [nk] | None => on_a' end in
    let on_b'' := match null_key with Some nk => on_b' ++ [nk] | None => on_b' end in
    res <- merge (how_of jt) left right on_a'' on_b'' sfx ;;
    let res := clean_copy res in                                            (* drop_indices *)
    res <- (match scratch with Some s => pd_del s res | None => Some res end) ;;
    res <- (match null_key with Some nk => pd_del nk res | None => Some res end) ;;
    res <- fold_left (jstep sfx) common_cols (Some res) ;;
    Some (clean_copy res).
(* the step: pandas.merge with its unspecified inner row order *)
Definition px_join_with := px_join_gen (pd_merge_with arr).
(* the same with the inner rows left-major (what the proofs of part 5 analyse; px_join_with arr returns a row permutation of it) *)
Definition px_join := px_join_gen pd_merge.

(* ------------------------------------------------------------------ _concat_rows_step *)
Definition px_concat (idc : option string) (an bn : string) (left right : table) : option table :=
  lr <- (match idc with
         | None => Some (left, right)
         | Some c =>
             l <- (if Nat.ltb 0 (nrows left) then Some (pd_set_scalar c (VStr an) left) else pd_set_col c [] left) ;;
             r <- (if Nat.ltb 0 (nrows right) then Some (pd_set_scalar c (VStr bn) right) else pd_set_col c [] right) ;;
             Some (l, r)
         end) ;;
  let lf := fst lr in
  let rt := snd lr in
  if Nat.ltb (nrows lf) 1 then Some rt
  else if Nat.ltb (nrows rt) 1 then Some lf
  else Some (clean_copy (pd_concat_rows lf rt)).

(* ------------------------------------------------------------------ what the builders guarantee (guard of the theorems) *)
(* Facts about a pipeline that the node constructors of view_representations.py enforce (C26) and that the theorems of
   Props/PEXEC.v use as their well-formedness premise; harness/props/PEXEC.py evaluates it on every builder-accepted case.
     every node    : declared columns distinct and not empty (ViewRepresentation.__init__)
     extend        : output names distinct (a dict), at least one; windowed: outputs are not partition / order columns, a window
                     term is fn() / fn(column, literals), its column exists and is no OTHER term's output, partition and order
                     columns exist and are pairwise distinct; excluded: any_value (mapped to "first", not modelled by Sem.win_fn)
                     and terms whose first argument is a literal (transcribed and tied, outside the refinement proof)
     project       : group columns exist; an aggregate reads an existing column or a constant; the only zero-argument aggregate is _size()
     map_columns   : the renaming does not merge two columns
     natural_join  : keys exist, as many left as right
     concat_rows   : both sides declare the same column set *)
Definition agg_ok_b (cs : list string) (e : expr) : bool :=
  match agg_shape e with
  | Some (fn, Some (WCol c)) => mem c cs
  | Some (fn, Some (WConst _)) => true
  | Some (fn, None) => String.eqb fn "_size"
  | None => true
  end.
Definition win_ok_b (cs keys : list string) (ke : string * expr) : bool :=
  match win_shape (snd ke) with
  | Some (fn, Some (WCol c), _) => mem c cs && (negb (mem c keys) || String.eqb c (fst ke)) && negb (String.eqb fn "any_value")
  | Some (fn, Some (WConst _), _) => false       (* a literal first argument (stand-in column): transcribed and tied, not covered by the refinement proof *)
  | Some (fn, None, _) => mem fn ["_row_number"; "_count"; "_size"]      (* _ngroup: group numbering, not modelled *)
  | None => false
  end.
Definition join_keys_clean (ca cb on_a on_b : list string) : bool :=
  subset on_a ca && subset on_b cb && Nat.eqb (List.length on_a) (List.length on_b).
Fixpoint wf_op_b (p : op) : bool :=
  nodup_names (column_names p) && negb (Nat.eqb (List.length (column_names p)) 0) &&
  match p with
  | OTable _ _ => true
  | OExtend s ops wd w =>
      wf_op_b s && nodup_names (map fst ops) && negb (Nat.eqb (List.length ops) 0) &&
      (if wd || Nat.ltb 0 (List.length (w_part w)) || Nat.ltb 0 (List.length (w_order w))
       then wd && disjointb (map fst ops) (w_part w ++ w_order w) && subset (w_part w ++ w_order w) (column_names s)
            && nodup_names (w_part w ++ w_order w)
            && forallb (win_ok_b (column_names s) (map fst ops)) ops
       else true)
  | OProject s ops gb => wf_op_b s && subset gb (column_names s) && forallb (fun ke => agg_ok_b (column_names s) (snd ke)) ops
  | OSelectRows s _ | OSelectCols s _ | ODropCols s _ | ORename s _ | OOrder s _ _ _ => wf_op_b s
  | OMapCols s m _ => wf_op_b s && nodup_names (map (rename_col m) (column_names s))
  | OJoin a b on_a on_b _ => wf_op_b a && wf_op_b b && join_keys_clean (column_names a) (column_names b) on_a on_b
  | OConcat a b _ _ _ => wf_op_b a && wf_op_b b && set_eqb (column_names a) (column_names b)
  end.

(* ------------------------------------------------------------------ eval: _eval_value_source over the operator tree *)
Fixpoint pexec_gen (q : pquirks) (p : op) (e : env) : option table :=
  match p with
  | OTable n cs => df <- dict_get e n ;; px_table cs df
  | OExtend s ops wd w => res <- pexec_gen q s e ;; px_extend ops wd w res
  | OProject s ops gb => res <- pexec_gen q s e ;; px_project q ops gb res
  | OSelectRows s x => res <- pexec_gen q s e ;; px_select_rows x res
  | OSelectCols s cs => res <- pexec_gen q s e ;; px_select_cols cs res
  | ODropCols s ds => res <- pexec_gen q s e ;; px_drop_cols ds res
  | ORename s m => res <- pexec_gen q s e ;; px_rename m res
  | OMapCols s m dels => res <- pexec_gen q s e ;; px_map_cols m dels res
  | OOrder s cs rev lim => res <- pexec_gen q s e ;; px_order cs rev lim res
  | OJoin a b on_a on_b jt => l <- pexec_gen q a e ;; r <- pexec_gen q b e ;; px_join_with (declared_cols p) on_a on_b jt l r
  | OConcat a b idc an bn => l <- pexec_gen q a e ;; r <- pexec_gen q b e ;; px_concat idc an bn l r
  end.
End Exec.

(* the executor with the stable sort and the left-major inner merge: what the correspondence runs (rows compared as a multiset
   where pandas' choices are not functions of the arguments: tied single-key sorts, inner merges) *)
Definition pexec : pquirks -> op -> env -> option table := pexec_gen stable_sorter id_arranger.
