(* C03 correspondence driver: Model/PolarsExec.v evaluated on the pipelines and tables the real Polars executor ran
   (eager and lazy) and compared, inside Coq, with what it returned; plus the instance of the agreement theorem on the
   table the real Pandas executor returned, and the causes (guard components) that fail on the case. *)
From Coq Require Import List Bool Arith ZArith NArith QArith String.
Import ListNotations.
From DA Require Import Base.PyRT Base.Cases Base.Val Model.Sem Model.SemCases Model.PolarsExec.

Record pcase := mkpcase {
  pc_pipeline : op; pc_tables : env;
  pc_eager : option table;        (* None: the eager Polars run raised *)
  pc_lazy : option table;         (* None: the lazy Polars run raised *)
  pc_pandas : option table;       (* None: the Pandas run raised *)
  pc_ordered : bool;              (* the pipeline ends in an order_rows whose keys are total on the data: compare row order *)
  pc_colorder : bool }.

(* same column set (the declared ORDER of a natural_join result follows a special rule of NaturalJoinNode.__init__ that
   Model/Sem.v `column_names` does not carry; the order is compared after a final select_columns), rows as a bag unless ordered *)
Definition pl_close (colorder ordered : bool) (m o : table) : bool :=
  table_close ordered m o && (if colorder then eqb (cols m) (cols o) else true).

Definition cause_bit (c : cause) : N :=
  match c with
  | CVocab => 256 | CColumnsExist => 512 | CCmpNull => 1024 | CLogicNull => 2048
  | CJoinKeyed => 16384 | CSortNulls => 65536 | CEmptyProject => 131072 | CSortTies => 262144 | CGroupKeyRepr => 524288
  end%N.

Definition flag (b : bool) (n : N) : N := if b then n else 0%N.

(* bit flags:  1 eager result differs from the model (or the model predicts a raise and a frame came back)
               2 lazy result differs likewise          4 model returns a frame, the eager run raised (recorded only)
               8 unmodelled method                    16 the model predicts a raise
              32 model columns differ from the declared column_names (never: Props/C03.v C03_columns)
              64 guard holds, model and Pandas returned, and the tables differ (an instance of the theorem fails on real data)
             128 eager and lazy frames differ        256.. the guard components that fail *)
Definition case_code (c : pcase) : N :=
  let p := pc_pipeline c in let e := pc_tables c in
  let causes := failed_causes p e in
  let cbits := fold_left (fun acc x => N.lor acc (cause_bit x)) causes 0%N in
  let obs_diff := match pc_eager c, pc_lazy c with Some a, Some b => negb (pl_close (pc_colorder c) (pc_ordered c) a b) | _, _ => false end in
  (match plexec p e with
   | Ok m =>
       flag (match pc_eager c with Some o => negb (pl_close (pc_colorder c) (pc_ordered c) m o) | None => false end) 1
       + flag (match pc_lazy c with Some o => negb (pl_close (pc_colorder c) (pc_ordered c) m o) | None => false end) 2
       + flag (match pc_eager c with None => true | _ => false end) 4
       + flag (negb (eqb (cols m) (column_names p))) 32
       + flag (match causes, pc_pandas c with
               | [], Some o => negb (table_close (pc_ordered c) m o && (if pc_colorder c then eqb (cols m) (cols o) else true))
               | _, _ => false end) 64
   | Raise =>
       flag (match pc_eager c with Some _ => true | None => false end) 1
       + flag (match pc_lazy c with Some _ => true | None => false end) 2 + 16
   | Unmodelled => 8
   end + flag obs_diff 128 + cbits)%N.

Definition case_codes (cs : list pcase) : list N := map case_code cs.
(* the Base/Cases.v convention: indices of the cases on which model and implementation disagree *)
Definition case_ok (c : pcase) : bool := N.eqb (N.land (case_code c) 227) 0.
Definition check_cases (cs : list pcase) : list nat := failing_idx case_ok cs.
