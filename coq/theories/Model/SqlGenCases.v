(* SQLGEN -- correspondence driver: Model/SqlGen.v and Model/SqlSem.v against what harness/props/SQLGEN.py OBSERVED.
   Everything is decided inside Coq.

     CStruct  the REAL NearSQL object graph returned by ops.to_near_sql_implementation_(db_model, using=None, temp_id_source=[0])
              (serialised field by field; annotation and ops_key left out) must be `erase` of the model's tree:
                - view names: both trees are canonicalised by order of first appearance (pre-order), so a renaming of the
                  generated views is invisible but a reused name is not;
                - terms, container columns, table terms, declared_term_dependencies: compared as MULTISETS (several of them
                  are built by iterating Python sets); the values of declared_term_dependencies as sets;
                - SQL text: character for character.  The text of a pipeline expression is looked up in the table `txt`
                  (expression of the pipeline -> db_model.expr_to_sql of it, computed by the real code); everything around it
                  (window clause, WHERE / GROUP BY / ORDER BY / LIMIT lines, ON lines, COALESCE of the two aliases, quoting of
                  column names) is written by `erase` under the default SQLFormatOptions.  The aliases of a join appear in its
                  own text; the harness replaces them by <L> / <R> in the real text and `erase` writes <L> / <R>.
              None = the real generator raised; then the model must say Raise.
     CSem     nsem fl_sqlite of the MODEL's tree on the stored tables must be the table the REAL SQL text returned from
              SQLite (same column set; row multiset, or row sequence when the pipeline ends in a total order_rows; column
              order when the pipeline ends in select_columns; the test-suite's 1e-8 rule on numbers).
     CDistinct  the generated view names of the model tree are pairwise distinct (the theorem, evaluated). *)
From Coq Require Import List Bool Arith ZArith QArith String Ascii DecimalString.
Import ListNotations.
From DA Require Import Base.PyRT Base.Cases Base.Val Model.Sem Model.SemCases Model.ColumnsUsed Model.SqlGen Model.SqlSem.
Local Open Scope list_scope.
Local Open Scope string_scope.

(* ------------------------------------------------------------------ the erased (text) form *)
Inductive enear :=
| ETable (name : string) (tms : option (list string))
| EUnary (name : vname) (tms : option (list (string * option string))) (sub : enear) (ecols : option (list string)) (force : bool)
         (sfx : list string) (mergeable : bool) (deps : option depmap)
| EBinary (name : vname) (tms : option (list (string * option string)))
          (s1 : enear) (cols1 : option (list string)) (force1 : bool) (pub1 : option vname) (joiner : string)
          (s2 : enear) (cols2 : option (list string)) (force2 : bool) (pub2 : option vname) (sfx : list string).

Definition dq : string := String (ascii_of_nat 34) EmptyString.
Definition qi (c : string) : string := dq ++ c ++ dq.                      (* quote_identifier *)
Definition dec_of_nat (n : nat) : string := NilEmpty.string_of_uint (Nat.to_uint n).
Fixpoint join_with (sep : string) (l : list string) : string :=
  match l with [] => "" | [x] => x | x :: t => x ++ sep ++ join_with sep t end.
(* _indent_and_sep_terms under the default options (sql_indent = " ", initial_commas = False) *)
Fixpoint sep_terms (sep : string) (l : list string) : list string :=
  match l with [] => [] | [x] => [" " ++ x] | x :: t => (" " ++ x ++ " " ++ sep) :: sep_terms sep t end.

Fixpoint expr_eqb (a b : expr) : bool :=
  match a, b with
  | ECol x, ECol y => String.eqb x y
  | EConst x, EConst y => eqb x y
  | EOp f xs, EOp g ys =>
      String.eqb f g && (fix go (l m : list expr) : bool :=
                           match l, m with [], [] => true | x :: t, y :: u => expr_eqb x y && go t u | _, _ => false end) xs ys
  | _, _ => false
  end.
Definition txt_of (txt : list (expr * string)) (e : expr) : string :=
  match find (fun p => expr_eqb (fst p) e) txt with Some p => snd p | None => "<?>" end.

Definition okey_text (cd : string * bool) : string := qi (fst cd) ++ (if snd cd then " DESC" else "").
Definition window_text (part : list string) (okeys : list (string * bool)) : string :=
  " OVER ( "
  ++ (match part with [] => "" | _ => "PARTITION BY " ++ join_with ", " (map qi part) ++ " " end)
  ++ (match okeys with [] => "" | _ => "ORDER BY " ++ join_with ", " (map okey_text okeys) ++ " " end)
  ++ " ) ".

Definition erase_term (txt : list (expr * string)) (k : string) (t : tterm) : option string :=
  match t with
  | TmPass => None
  | TmSelf => Some k
  | TmCol c => Some (qi c)
  | TmExpr e | TmAgg e => Some (txt_of txt e)
  | TmWin e part okeys => Some (txt_of txt e ++ window_text part okeys)
  | TmCoalesce lf c =>
      let f := if lf then "<L>" else "<R>" in let s := if lf then "<R>" else "<L>" in
      Some ("COALESCE(" ++ f ++ "." ++ qi c ++ ", " ++ s ++ "." ++ qi c ++ ")")
  end.
Definition erase_terms (txt : list (expr * string)) (t : option terms) : option (list (string * option string)) :=
  option_map (map (fun kt => (fst kt, erase_term txt (fst kt) (snd kt)))) t.

Definition limit_text (n : nat) : string := "LIMIT " ++ dec_of_nat n.
Definition erase_suffix (txt : list (expr * string)) (s : tsuffix) : list string :=
  match s with
  | SfxNone => []
  | SfxWhere e => ["WHERE"; " " ++ txt_of txt e]
  | SfxGroup gb => "GROUP BY" :: sep_terms "," (map qi gb)
  | SfxOrder keys lim =>
      List.app (match keys with [] => [] | _ => "ORDER BY" :: sep_terms "," (map okey_text keys) end)
               (match lim with Some n => [limit_text n] | None => [] end)
  end.
Definition erase_on (on : list (string * string)) : list string :=
  match on with
  | [] => []
  | _ => "ON " :: sep_terms "AND" (map (fun ab => "<L>." ++ qi (fst ab) ++ " = <R>." ++ qi (snd ab)) on)
  end.
Definition joiner_text (j : tjoiner) : string :=
  match j with
  | TUnion => "UNION ALL"
  | TJoin JInner => "INNER JOIN" | TJoin JLeft => "LEFT JOIN" | TJoin JRight => "RIGHT JOIN" | TJoin JFull => "FULL JOIN"
  end.

Fixpoint erase (txt : list (expr * string)) (q : tnear) : enear :=
  match q with
  | TTable n t => ETable n t
  | TUnary n t s ci sfx mg dp =>
      EUnary n (erase_terms txt t) (erase txt s) (tc_cols ci) (tc_force ci) (erase_suffix txt sfx) mg dp
  | TBinary n t s1 c1 j s2 c2 on =>
      EBinary n (erase_terms txt t) (erase txt s1) (tc_cols c1) (tc_force c1) (tc_pub c1) (joiner_text j)
              (erase txt s2) (tc_cols c2) (tc_force c2) (tc_pub c2) (erase_on on)
  end.

(* ------------------------------------------------------------------ comparison *)
Definition vname_eqb (a b : vname) : bool := String.eqb (vn_kind a) (vn_kind b) && Nat.eqb (vn_id a) (vn_id b).
Fixpoint enames (q : enear) : list vname :=
  match q with
  | ETable _ _ => []
  | EUnary n _ s _ _ _ _ _ => n :: enames s
  | EBinary n _ s1 _ _ p1 _ s2 _ _ p2 _ => n :: (opt_name p1 ++ opt_name p2 ++ enames s1 ++ enames s2)%list
  end.
Fixpoint first_index (l : list vname) (v : vname) (i : nat) : nat :=
  match l with [] => i | x :: t => if vname_eqb x v then i else first_index t v (Datatypes.S i) end.

Section Bag.
  Context {A : Type} (eq : A -> A -> bool).
  Fixpoint remove_one (x : A) (l : list A) : option (list A) :=
    match l with [] => None | y :: t => if eq x y then Some t else option_map (cons y) (remove_one x t) end.
  Fixpoint bag_eqb (a b : list A) : bool :=
    match a with
    | [] => match b with [] => true | _ => false end
    | x :: t => match remove_one x b with Some b' => bag_eqb t b' | None => false end
    end.
End Bag.
Definition obag_eqb {A} (eq : A -> A -> bool) (a b : option (list A)) : bool :=
  match a, b with Some x, Some y => bag_eqb eq x y | None, None => true | _, _ => false end.
Definition ostr_eqb (a b : option string) : bool :=
  match a, b with Some x, Some y => String.eqb x y | None, None => true | _, _ => false end.
Definition term_eqb (a b : string * option string) : bool := String.eqb (fst a) (fst b) && ostr_eqb (snd a) (snd b).
Definition dep_eqb (a b : string * list string) : bool := String.eqb (fst a) (fst b) && set_eqb (snd a) (snd b).
Fixpoint lstr_eqb (a b : list string) : bool :=
  match a, b with [], [] => true | x :: s, y :: t => String.eqb x y && lstr_eqb s t | _, _ => false end.

(* na / nb: the names of the two trees in order of first appearance *)
Fixpoint enear_match (na nb : list vname) (a b : enear) : bool :=
  let same x y := Nat.eqb (first_index na x 0) (first_index nb y 0) in
  let osame x y := match x, y with Some u, Some v => same u v | None, None => true | _, _ => false end in
  match a, b with
  | ETable n t, ETable n' t' => String.eqb n n' && obag_eqb String.eqb t t'
  | EUnary n t s c f sfx mg dp, EUnary n' t' s' c' f' sfx' mg' dp' =>
      same n n' && obag_eqb term_eqb t t' && enear_match na nb s s' && obag_eqb String.eqb c c' && Bool.eqb f f'
      && lstr_eqb sfx sfx' && Bool.eqb mg mg' && obag_eqb dep_eqb dp dp'
  | EBinary n t s1 c1 f1 p1 j s2 c2 f2 p2 sfx, EBinary n' t' s1' c1' f1' p1' j' s2' c2' f2' p2' sfx' =>
      same n n' && obag_eqb term_eqb t t' && enear_match na nb s1 s1' && obag_eqb String.eqb c1 c1' && Bool.eqb f1 f1'
      && osame p1 p1' && String.eqb j j' && enear_match na nb s2 s2' && obag_eqb String.eqb c2 c2' && Bool.eqb f2 f2'
      && osame p2 p2' && lstr_eqb sfx sfx'
  | _, _ => false
  end.
Definition enear_eqv (a b : enear) : bool := enear_match (enames a) (enames b) a b.

(* the order in which the final SELECT writes its columns *)
Definition top_keys (q : enear) : list string :=
  match q with
  | ETable _ t => match t with Some l => l | None => [] end
  | EUnary _ t _ _ _ _ _ _ | EBinary _ t _ _ _ _ _ _ _ _ _ _ => match t with Some l => map fst l | None => [] end
  end.

Fixpoint nodup_vn (l : list vname) : bool :=
  match l with [] => true | x :: t => negb (existsb (vname_eqb x) t) && nodup_vn t end.

Inductive case :=
| CStruct (d : dialect) (p : op) (txt : list (expr * string)) (obs : option enear) (top_order : bool)
| CSem (d : dialect) (p : op) (e : env) (obs : table) (ordered colorder : bool)
| CDistinct (d : dialect) (p : op).

Definition case_ok (c : case) : bool :=
  match c with
  | CStruct d p txt obs top_order =>
      match to_near d p None 0, obs with
      | Ok (q, _), Some o => enear_eqv (erase txt q) o && (if top_order then lstr_eqb (top_keys (erase txt q)) (top_keys o) else true)
      | Raise, None => true
      | _, _ => false
      end
  | CSem d p e obs ordered colorder =>
      match to_near d p None 0 with
      | Ok (q, _) => match nsem fl_sqlite q e with
                     | Some m => table_close ordered m obs && (if colorder then eqb (cols m) (cols obs) else true)
                     | None => false
                     end
      | _ => false
      end
  | CDistinct d p =>
      match to_near d p None 0 with
      | Ok (q, _) => nodup_vn (view_names q)
      | Raise => true
      | OutOfFuel => false
      end
  end.
Definition check_cases (cs : list case) : list nat := failing_idx case_ok cs.

(* what the model computes, for the harness to print when a case fails *)
Definition show_struct (d : dialect) (p : op) (txt : list (expr * string)) : result enear :=
  match to_near d p None 0 with Ok (q, _) => Ok (erase txt q) | Raise => Raise | OutOfFuel => OutOfFuel end.
Definition show_sem (d : dialect) (p : op) (e : env) : option table :=
  match to_near d p None 0 with Ok (q, _) => nsem fl_sqlite q e | _ => None end.
