(* C18: the premise of "results ignore the input row order", as computable checks over Model/Sem.v.
   `perm_guard_b fl p e` evaluates the pipeline bottom-up on the given tables and tests, at every step that needs it and on
   that step's ACTUAL input:
     - a windowed extend running an order-sensitive function: inside every partition the order_by columns order the rows
       strictly (no two rows tie; a missing order_by ties every pair);
     - an order_rows with a limit: the order is total on its input (tied rows are identical);
     - a project: group-key values that are equivalent are identical (one representation per value: True / 1 / 1.0 are not mixed
       in one key column) -- only the LABEL of the group depends on this, see Proofs/PermP2.v.
   No proofs here; Proofs/PermP4.v shows that the checks imply the Prop-level premises of the theorems. *)
From Coq Require Import List Bool Arith ZArith QArith String.
Import ListNotations.
From DA Require Import Base.PyRT Base.Val Model.Sem.
Local Open Scope string_scope.
Local Open Scope list_scope.

(* window functions whose value at a row may depend on the order of the partition: conservatively, EVERY name except the plain
   group aggregates, which the reference semantics broadcasts to all rows of the partition (Proofs/PermP1.win_fn_broadcast).
   So cumsum, cummax, cummin, cumprod, cumcount, _count, _row_number, shift, rank, first, last, ffill, bfill, ... and any
   name added to win_fn later need an order that is strict inside each partition. *)
Definition plain_aggregates : list string := ["sum"; "mean"; "min"; "max"; "count"; "size"; "_size"].
Definition order_sensitive (op : string) : bool := negb (mem op plain_aggregates).
Definition expr_order_sensitive (e : expr) : bool :=
  match win_parts e with Some (op, _, _) => order_sensitive op | None => false end.
Definition ops_order_sensitive (ops : list (string * expr)) : bool := existsb (fun ke => expr_order_sensitive (snd ke)) ops.

(* the rows in the partition of r, and that partition in window order *)
Definition part_rows (cs pb : list string) (rs : list (list val)) (r : list val) : list (list val) :=
  filter (fun r2 => keys_eqv (key_of cs pb r) (key_of cs pb r2)) rs.
Definition okeys_of (w : window) : list (string * bool) := map (fun c => (c, mem c (w_rev w))) (w_order w).
Definition sorted_part (fl : flavor) (cs : list string) (w : window) (rs : list (list val)) (r : list val) : list (list val) :=
  stable_sort (row_le fl cs (okeys_of w)) (part_rows cs (w_part w) rs r).
Definition arg_val (fl : flavor) (cs : list string) (arg : option expr) (r : list val) : val :=
  match arg with Some a => eval_expr fl cs r a | None => VBool true end.

Fixpoint nodup_b (l : list (list val)) : bool :=
  match l with [] => true | x :: t => negb (mem x t) && nodup_b t end.
Definition total_on_b (fl : flavor) (cs : list string) (keys : list (string * bool)) (rs : list (list val)) : bool :=
  forallb (fun r1 => forallb (fun r2 => negb (row_le fl cs keys r1 r2 && row_le fl cs keys r2 r1) || eqb r1 r2) rs) rs.
Definition window_total_b (fl : flavor) (cs : list string) (w : window) (rs : list (list val)) : bool :=
  forallb (fun r => let p := part_rows cs (w_part w) rs r in nodup_b p && total_on_b fl cs (okeys_of w) p) rs.
Definition keys_exact_b (cs gb : list string) (rs : list (list val)) : bool :=
  forallb (fun r1 => forallb (fun r2 => negb (keys_eqv (key_of cs gb r1) (key_of cs gb r2)) || eqb (key_of cs gb r1) (key_of cs gb r2)) rs) rs.

Definition on_input (fl : flavor) (s : op) (e : env) (f : table -> bool) : bool :=
  match sem_gen fl s e with Some t => f t | None => true end.

(* window orders strict inside each partition, limits taken under a total order *)
Fixpoint total_orders_b (fl : flavor) (p : op) (e : env) : bool :=
  match p with
  | OTable _ _ => true
  | OExtend s ops wd w =>
      total_orders_b fl s e &&
      (if wd && ops_order_sensitive ops then on_input fl s e (fun t => window_total_b fl (cols t) w (rows t)) else true)
  | OProject s _ _ | OSelectRows s _ | OSelectCols s _ | ODropCols s _ | ORename s _ | OMapCols s _ _ => total_orders_b fl s e
  | OOrder s cs rev lim =>
      total_orders_b fl s e &&
      (match lim with
       | Some _ => on_input fl s e (fun t => total_on_b fl (cols t) (map (fun c => (c, mem c rev)) cs) (rows t))
       | None => true
       end)
  | OJoin a b _ _ _ | OConcat a b _ _ _ => total_orders_b fl a e && total_orders_b fl b e
  end.

(* one representation per group-key value *)
Fixpoint exact_keys_b (fl : flavor) (p : op) (e : env) : bool :=
  match p with
  | OTable _ _ => true
  | OProject s _ gb => exact_keys_b fl s e && on_input fl s e (fun t => keys_exact_b (cols t) gb (rows t))
  | OExtend s _ _ _ | OSelectRows s _ | OSelectCols s _ | ODropCols s _ | ORename s _ | OMapCols s _ _ | OOrder s _ _ _ => exact_keys_b fl s e
  | OJoin a b _ _ _ | OConcat a b _ _ _ => exact_keys_b fl a e && exact_keys_b fl b e
  end.

Definition perm_guard_b (fl : flavor) (p : op) (e : env) : bool := total_orders_b fl p e && exact_keys_b fl p e.
