(* correspondence driver for C25: frames are identified by an integer id (equal ids <-> equal frames incl. dtypes),
   the hash is the id's text (ideal, injective); key sorting is insertion sort on String.leb (code-point order) *)
From Coq Require Import List Bool ZArith String Ascii.
From Coq Require Import DecimalString.
Import ListNotations.
From DA Require Import Base.PyRT Base.Cases Model.Cache.

Definition fid := nat.
Definition hash_id (f : fid) : string := NilEmpty.string_of_uint (Nat.to_uint f).
Fixpoint ins (x : string) (l : list string) : list string :=
  match l with [] => [x] | y :: t => if String.leb x y then x :: l else y :: ins x t end.
Definition isort (l : list string) : list string := fold_right ins [] l.

Definition out_eqb (a b : @cout fid) : bool :=
  match a, b with
  | RLoc x, RLoc y => Nat.eqb x y
  | RVal x, RVal y => Nat.eqb x y
  | RUnit, RUnit => true
  | RKeyError, RKeyError => true
  | RBad, RBad => true
  | _, _ => false
  end.
Fixpoint outs_eqb (a b : list (@cout fid)) : bool :=
  match a, b with [], [] => true | x :: t, y :: u => out_eqb x y && outs_eqb t u | _, _ => false end.
(* case files name frames by caller HANDLES (0,1,2,.. in order of CNew / successful CGet); the driver maps handles to locations *)
Definition hloc (handles : list nat) (h : nat) : nat := nth h handles 4000.
Definition tr_op (handles : list nat) (o : @cop fid) : @cop fid :=
  match o with
  | CNew f => CNew f
  | CMutate h f => CMutate (hloc handles h) f
  | CStore n q dm r => CStore n q (map (fun kv => (fst kv, hloc handles (snd kv))) dm) (hloc handles r)
  | CGet n q dm => CGet n q (map (fun kv => (fst kv, hloc handles (snd kv))) dm)
  | CRead h => CRead (hloc handles h)
  end.
Fixpoint run_h (s : @cstate fid) (handles : list nat) (ops : list (@cop fid)) : list (@cout fid) :=
  match ops with
  | [] => []
  | o :: t => let '(s', r) := c_step hash_id isort s (tr_op handles o) in
              match r with
              | RLoc l => RLoc (List.length handles) :: run_h s' (handles ++ [l]) t
              | _ => r :: run_h s' handles t
              end
  end.
Definition case_ok (c : list (@cop fid) * list (@cout fid)) : bool :=
  outs_eqb (run_h c_init [] (fst c)) (snd c).
Definition check_cases cs : list nat := failing_idx case_ok cs.
