(* C16 -- the standard SQL join, written from the SQL standard (ISO 9075-2, 7.7 <joined table>, 8.2 <comparison predicate>,
   6.12 COALESCE), NOT from Model/Sem.v.  Nothing of Sem.v is imported here.

     T1 <jt> JOIN T2 ON c :   CP  = the cross product of T1 and T2
                              TN  = the rows of CP for which the search condition c is TRUE (not FALSE, not UNKNOWN)
                              XN1 = the rows of T1 that take part in no row of TN, extended on the right by NULLs
                              XN2 = the rows of T2 that take part in no row of TN, extended on the left by NULLs
            INNER: TN     LEFT: TN UNION ALL XN1     RIGHT: TN UNION ALL XN2     FULL: TN UNION ALL XN1 UNION ALL XN2
            CROSS: CP
   c is the conjunction of T1.ka = T2.kb over the key pairs; `=` is the three-valued comparison: UNKNOWN as soon as one
   operand is NULL, so a NULL key never matches anything (not even another NULL).
   The select list is the one natural_join documents: the left table's columns, then the columns only the right table
   has; a column both tables have is COALESCE(T1.c, T2.c) (the left value, or the right value where the left is NULL).
   No proofs in this file. *)
From Coq Require Import List Bool Arith ZArith QArith String.
Import ListNotations.
From DA Require Import Base.PyRT Base.Val.
Local Open Scope list_scope.

Definition row := list val.

(* ------------------------------------------------------------------ three-valued logic and `=` *)
Inductive tv := TTrue | TFalse | TUnknown.
Definition tv_and (x y : tv) : tv :=
  match x, y with
  | TFalse, _ | _, TFalse => TFalse
  | TTrue, TTrue => TTrue
  | _, _ => TUnknown
  end.
Definition is_true (t : tv) : bool := match t with TTrue => true | _ => false end.

Definition sql_is_null (v : val) : bool := match v with VNull => true | _ => false end.
(* numeric value of a non-string cell: booleans are 0/1 (SQLite, and Pandas' bool/int/float promotion) *)
Definition sql_num (v : val) : option Q :=
  match v with VNum q => Some q | VInt z => Some (inject_Z z) | VBool true => Some 1%Q | VBool false => Some 0%Q | _ => None end.
Definition sql_eq (a b : val) : tv :=
  match a, b with
  | VNull, _ | _, VNull => TUnknown
  | VStr x, VStr y => if String.eqb x y then TTrue else TFalse
  | VStr _, _ | _, VStr _ => TFalse
  | _, _ => match sql_num a, sql_num b with
            | Some x, Some y => if Qeq_bool x y then TTrue else TFalse
            | _, _ => TFalse
            end
  end.

(* ------------------------------------------------------------------ the ON condition *)
(* on : the key pairs (column of T1, column of T2); the empty conjunction is TRUE *)
Definition on_cond (c1 c2 : list string) (on : list (string * string)) (r1 r2 : row) : tv :=
  fold_right (fun p acc => tv_and (sql_eq (get c1 r1 (fst p)) (get c2 r2 (snd p))) acc) TTrue on.
Definition on_holds (c1 c2 : list string) (on : list (string * string)) (r1 r2 : row) : bool := is_true (on_cond c1 c2 on r1 r2).

(* ------------------------------------------------------------------ the select list *)
Inductive item := FromLeft (c : string) | FromRight (c : string) | Coalesce (c : string).
Definition out_cols (c1 c2 : list string) : list string := c1 ++ filter (fun c => negb (mem c c1)) c2.
Definition item_of (c1 c2 : list string) (c : string) : item :=
  if mem c c1 then (if mem c c2 then Coalesce c else FromLeft c) else FromRight c.
(* a row of the joined table is a pair of rows either of which may be the NULL extension (None) *)
Definition cell (cs : list string) (r : option row) (c : string) : val := match r with Some x => get cs x c | None => VNull end.
Definition eval_item (c1 c2 : list string) (r1 r2 : option row) (i : item) : val :=
  match i with
  | FromLeft c => cell c1 r1 c
  | FromRight c => cell c2 r2 c
  | Coalesce c => if sql_is_null (cell c1 r1 c) then cell c2 r2 c else cell c1 r1 c
  end.
Definition select_row (c1 c2 : list string) (r1 r2 : option row) : row :=
  map (fun c => eval_item c1 c2 r1 r2 (item_of c1 c2 c)) (out_cols c1 c2).

(* ------------------------------------------------------------------ the joined table *)
Inductive sqljoin := SInner | SLeft | SRight | SFull | SCross.

Definition joined_TN (on : list (string * string)) (a b : table) : list (row * row) :=
  filter (fun p => on_holds (cols a) (cols b) on (fst p) (snd p)) (list_prod (rows a) (rows b)).
Definition unmatched_left (on : list (string * string)) (a b : table) : list row :=
  filter (fun r1 => negb (existsb (fun r2 => on_holds (cols a) (cols b) on r1 r2) (rows b))) (rows a).
Definition unmatched_right (on : list (string * string)) (a b : table) : list row :=
  filter (fun r2 => negb (existsb (fun r1 => on_holds (cols a) (cols b) on r1 r2) (rows a))) (rows b).

Definition sql_join_rows (jt : sqljoin) (on : list (string * string)) (a b : table) : list row :=
  let c1 := cols a in let c2 := cols b in
  let tn := map (fun p => select_row c1 c2 (Some (fst p)) (Some (snd p))) (joined_TN on a b) in
  let xn1 := map (fun r1 => select_row c1 c2 (Some r1) None) (unmatched_left on a b) in
  let xn2 := map (fun r2 => select_row c1 c2 None (Some r2)) (unmatched_right on a b) in
  match jt with
  | SInner => tn
  | SLeft => tn ++ xn1
  | SRight => tn ++ xn2
  | SFull => tn ++ xn1 ++ xn2
  | SCross => map (fun p => select_row c1 c2 (Some (fst p)) (Some (snd p))) (list_prod (rows a) (rows b))
  end.

Definition sql_join_spec (jt : sqljoin) (on : list (string * string)) (a b : table) : table :=
  mktable (out_cols (cols a) (cols b)) (sql_join_rows jt on a b).

(* the rows of T2 a given row of T1 is joined with (its partners), and conversely *)
Definition partners_of_left (on : list (string * string)) (a b : table) (r1 : row) : list row :=
  filter (fun r2 => on_holds (cols a) (cols b) on r1 r2) (rows b).
Definition partners_of_right (on : list (string * string)) (a b : table) (r2 : row) : list row :=
  filter (fun r1 => on_holds (cols a) (cols b) on r1 r2) (rows a).
(* what one row of T1 contributes to a LEFT / FULL join: one output row per partner, or itself NULL-extended when it has none *)
Definition left_contribution (on : list (string * string)) (a b : table) (r1 : row) : list row :=
  match partners_of_left on a b r1 with
  | [] => [select_row (cols a) (cols b) (Some r1) None]
  | ps => map (fun r2 => select_row (cols a) (cols b) (Some r1) (Some r2)) ps
  end.
Definition right_contribution (on : list (string * string)) (a b : table) (r2 : row) : list row :=
  match partners_of_right on a b r2 with
  | [] => [select_row (cols a) (cols b) None (Some r2)]
  | ps => map (fun r1 => select_row (cols a) (cols b) (Some r1) (Some r2)) ps
  end.
Definition has_null_key (cs : list string) (ks : list string) (r : row) : bool := existsb (fun k => sql_is_null (get cs r k)) ks.
