(* C06 -- correspondence driver for Model/Simplify.v: the tree the REAL builder returned for prefix + step (through the public API,
   converted by harness/props/C06.py) must be `build_step` of the model, and the prefix's real column_names must be
   `declared_names`.  Decided inside Coq by structural comparison of the two trees. *)
From Coq Require Import List Bool Arith String.
Import ListNotations.
From DA Require Import Base.PyRT Base.Cases Base.Val Model.Sem Model.Simplify.
Local Open Scope list_scope.

Fixpoint expr_eqb (x y : expr) : bool :=
  match x, y with
  | ECol a, ECol b => eqb a b
  | EConst a, EConst b => eqb a b
  | EOp o1 l1, EOp o2 l2 =>
      eqb o1 o2 && (fix go (l1 l2 : list expr) : bool :=
                      match l1, l2 with [], [] => true | a :: t, b :: u => expr_eqb a b && go t u | _, _ => false end) l1 l2
  | _, _ => false
  end.
Fixpoint ops_eqb (a b : list (string * expr)) : bool :=
  match a, b with
  | [], [] => true
  | (k1, e1) :: t, (k2, e2) :: u => eqb k1 k2 && expr_eqb e1 e2 && ops_eqb t u
  | _, _ => false
  end.
Definition window_eqb (a b : window) : bool := eqb (w_part a) (w_part b) && eqb (w_order a) (w_order b) && eqb (w_rev a) (w_rev b).
Definition jointype_eqb (a b : jointype) : bool :=
  match a, b with JInner, JInner | JLeft, JLeft | JRight, JRight | JFull, JFull => true | _, _ => false end.
Fixpoint op_eqb (x y : op) : bool :=
  match x, y with
  | OTable n1 c1, OTable n2 c2 => eqb n1 n2 && eqb c1 c2
  | OExtend s1 o1 wd1 w1, OExtend s2 o2 wd2 w2 => op_eqb s1 s2 && ops_eqb o1 o2 && Bool.eqb wd1 wd2 && window_eqb w1 w2
  | OProject s1 o1 g1, OProject s2 o2 g2 => op_eqb s1 s2 && ops_eqb o1 o2 && eqb g1 g2
  | OSelectRows s1 e1, OSelectRows s2 e2 => op_eqb s1 s2 && expr_eqb e1 e2
  | OSelectCols s1 c1, OSelectCols s2 c2 => op_eqb s1 s2 && eqb c1 c2
  | ODropCols s1 c1, ODropCols s2 c2 => op_eqb s1 s2 && eqb c1 c2
  | ORename s1 m1, ORename s2 m2 => op_eqb s1 s2 && eqb m1 m2
  | OMapCols s1 m1 d1, OMapCols s2 m2 d2 => op_eqb s1 s2 && eqb m1 m2 && eqb d1 d2
  | OOrder s1 c1 r1 l1, OOrder s2 c2 r2 l2 => op_eqb s1 s2 && eqb c1 c2 && eqb r1 r2 && eqb l1 l2
  | OJoin a1 b1 x1 y1 j1, OJoin a2 b2 x2 y2 j2 => op_eqb a1 a2 && op_eqb b1 b2 && eqb x1 x2 && eqb y1 y2 && jointype_eqb j1 j2
  | OConcat a1 b1 i1 n1 m1, OConcat a2 b2 i2 n2 m2 => op_eqb a1 a2 && op_eqb b1 b2 && eqb i1 i2 && eqb n1 n2 && eqb m1 m2
  | _, _ => false
  end.

(* iw: fn_names_that_imply_windowed_situation as read from /repo; the prefix as built by the real builder; its real column_names;
   the step; the tree the real builder returned *)
Record bcase := mkb { b_iw : list string; b_prefix : op; b_names : list string; b_step : step; b_observed : op }.

Definition bcase_ok (c : bcase) : bool :=
  op_eqb (build_step (b_iw c) (b_prefix c) (b_step c)) (b_observed c)
  && eqb (declared_names (b_prefix c)) (b_names c).

Definition check_bcases (cs : list bcase) : list nat := failing_idx bcase_ok cs.
