(* correspondence driver for C19: the store model of the Pandas / Polars executors against what an instrumented run of
   `ops.eval` did (harness/props/C19.py):
     * per evaluated node, in evaluation order (post-order): the step kind, whether the returned frame OBJECT is a new one
       or the very object returned by a source (or a caller's frame), its row count, its columns and whether its index is
       the default RangeIndex;
     * the set of in-place operations data_algebra performed, as (step kind, operation kind, target is a caller frame). *)
From Coq Require Import List Bool Arith String.
Import ListNotations.
From DA Require Import Base.Cases Model.Store.
Local Open Scope list_scope.

Inductive oret := RNew | RSrc0 | RSrc1 | RCaller.
Definition onode := (skind * oret * nat * list string * bool)%type.
Inductive owk := OW (w : wkind) | OOther.                 (* an in-place operation the model knows / any other one *)
Definition owrite := (skind * owk * bool)%type.            (* bool: the written frame is one of the caller's *)

Definition skind_eqb (a b : skind) : bool :=
  match a, b with
  | KTable, KTable | KExtend, KExtend | KProject, KProject | KSelectRows, KSelectRows | KSelectCols, KSelectCols
  | KDropCols, KDropCols | KOrderRows, KOrderRows | KMapCols, KMapCols | KRename, KRename | KJoin, KJoin
  | KConcat, KConcat | KConvert, KConvert => true
  | _, _ => false
  end.
Definition wkind_eqb (a b : wkind) : bool :=
  match a, b with
  | WSetItem, WSetItem | WDelItem, WDelItem | WResetIndex, WResetIndex | WLocSet, WLocSet | WSetColumns, WSetColumns => true
  | _, _ => false
  end.
Definition oret_eqb (a b : oret) : bool :=
  match a, b with RNew, RNew | RSrc0, RSrc0 | RSrc1, RSrc1 | RCaller, RCaller => true | _, _ => false end.
Definition set_eqb (a b : list string) : bool := subset a b && subset b a.

(* the executor run node by node: same step functions as `pexec`, plus a silent look at each node's result *)
Definition observe (k : skind) (srcs : list loc) (callers : list loc) (prev : list onode) (m : M loc) : M (loc * list onode) :=
  fun s => match m s with
           | None => None
           | Some (l, s', e) =>
               match get s' l with
               | None => None
               | Some f =>
                   let r := if existsb (Nat.eqb l) callers then RCaller
                            else match srcs with
                                 | [a] => if Nat.eqb l a then RSrc0 else RNew
                                 | [a; b] => if Nat.eqb l a then RSrc0 else if Nat.eqb l b then RSrc1 else RNew
                                 | _ => RNew
                                 end in
                   Some ((l, prev ++ [(k, r, f_nrows f, f_cols f, match f_index f with IxRange => true | IxOther => false end)]), s', e)
               end
           end.

Section Obs.
Variable env : env_locs.
Let callers := map snd env.
Definition un (k : skind) (m : M (loc * list onode)) (step : loc -> M loc) : M (loc * list onode) :=
  bind m (fun lo => observe k [fst lo] callers (snd lo) (step (fst lo))).
Definition bin (k : skind) (ma mb : M (loc * list onode)) (step : loc -> loc -> M loc) : M (loc * list onode) :=
  bind ma (fun la => bind mb (fun lb => observe k [fst la; fst lb] callers (snd la ++ snd lb) (step (fst la) (fst lb)))).
Fixpoint pexec_obs (p : op) : M (loc * list onode) :=
  match p with
  | Table name cols => observe KTable [] callers [] (step_table env name cols)
  | Extend s tag outs win random => un KExtend (pexec_obs s) (step_extend tag outs win random)
  | Project s tag gb outs consts nr => un KProject (pexec_obs s) (step_project tag gb outs consts nr)
  | SelectRows s tag nr => un KSelectRows (pexec_obs s) (step_select_rows tag nr)
  | SelectCols s cs => un KSelectCols (pexec_obs s) (step_select_cols cs)
  | DropCols s cs => un KDropCols (pexec_obs s) (step_drop_cols cs)
  | OrderRows s by_ rev limit => un KOrderRows (pexec_obs s) (step_order_rows by_ rev limit)
  | MapCols s m dels => un KMapCols (pexec_obs s) (step_map_cols m dels)
  | Rename s m => un KRename (pexec_obs s) (step_rename m)
  | NaturalJoin a b on_a on_b jt nk nr => bin KJoin (pexec_obs a) (pexec_obs b) (step_join on_a on_b jt nk nr)
  | ConcatRows a b idcol => bin KConcat (pexec_obs a) (pexec_obs b) (step_concat idcol)
  | ConvertRecords s hi ho mc oc nm nr => un KConvert (pexec_obs s) (step_convert hi ho mc oc nm nr)
  end.
End Obs.

(* the caller's frames live at locations 1..n *)
Fixpoint mk_env (i : nat) (ts : list (string * frame)) : env_locs * list (loc * frame) :=
  match ts with
  | [] => ([], [])
  | (n, f) :: t => let '(e, fs) := mk_env (S i) t in ((n, i) :: e, (i, f) :: fs)
  end.
Definition init_store (ts : list (string * frame)) : store := mkstore (snd (mk_env 1 ts)) 0.
Definition init_env (ts : list (string * frame)) : env_locs := fst (mk_env 1 ts).

Definition onode_eqb (a b : onode) : bool :=
  let '(k1, r1, n1, c1, i1) := a in let '(k2, r2, n2, c2, i2) := b in
  skind_eqb k1 k2 && oret_eqb r1 r2 && Nat.eqb n1 n2 && set_eqb c1 c2 && Bool.eqb i1 i2.
Fixpoint onodes_eqb (a b : list onode) : bool :=
  match a, b with [], [] => true | x :: t, y :: u => onode_eqb x y && onodes_eqb t u | _, _ => false end.

Definition model_writes (evs : list event) : list (skind * wkind) :=
  flat_map (fun e => match e with EWrite k _ w => [(k, w)] | _ => [] end) evs.
Definition kw_mem (k : skind) (w : wkind) (l : list (skind * wkind)) : bool :=
  existsb (fun kw => skind_eqb k (fst kw) && wkind_eqb w (snd kw)) l.
Definition obs_known (ws : list owrite) : list (skind * wkind) :=
  flat_map (fun o => match o with (k, OW w, _) => [(k, w)] | _ => [] end) ws.

Record case := mkcase {
  c_polars : bool;
  c_tables : list (string * frame);
  c_op : op;
  c_nodes : list onode;           (* Pandas runs only *)
  c_writes : list owrite }.

Definition case_ok (c : case) : bool :=
  let s0 := init_store (c_tables c) in
  let env := init_env (c_tables c) in
  (* the implementation never wrote into a caller frame and used only in-place operations the model knows *)
  forallb (fun o => match o with (_, OW _, false) => true | _ => false end) (c_writes c) &&
  if c_polars c then
    match plexec env (c_op c) s0 with
    | None => false
    | Some (_, _, evs) =>
        forallb (fun kw => kw_mem (fst kw) (snd kw) (model_writes evs)) (obs_known (c_writes c)) &&
        forallb (fun l => negb (existsb (Nat.eqb l) (dom s0))) (write_locs evs)
    end
  else
    match pexec_obs env (c_op c) s0 with
    | None => false
    | Some ((_, nodes), _, evs) =>
        onodes_eqb nodes (c_nodes c) &&
        (* the same in-place operations at the same step kinds, both ways *)
        forallb (fun kw => kw_mem (fst kw) (snd kw) (model_writes evs)) (obs_known (c_writes c)) &&
        forallb (fun kw => kw_mem (fst kw) (snd kw) (obs_known (c_writes c))) (model_writes evs) &&
        forallb (fun l => negb (existsb (Nat.eqb l) (dom s0))) (write_locs evs)
    end.
Definition check_cases (cs : list case) : list nat := failing_idx case_ok cs.

(* diagnostic used when a case fails: what the model computed *)
Definition model_view (c : case) : option (list onode * list (skind * wkind)) :=
  match pexec_obs (init_env (c_tables c)) (c_op c) (init_store (c_tables c)) with
  | Some ((_, nodes), _, evs) => Some (nodes, model_writes evs)
  | None => None
  end.
