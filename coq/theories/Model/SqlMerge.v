(* Hand model of the SQL-level extend merge in data_algebra/sql_model.py, SQLModel.extend_to_near_sql
   (the branch guarded by `self.allow_extend_merges`): the test on declared_term_dependencies ("contention") and the
   in-place update of the freshly generated sub-query `subsql` (terms, declared_term_dependencies, annotation), which is then
   RETURNED in place of a new step.  The mutated object is modelled as a returned value: the caller is the only holder of it.

   sql_merge fl sub terms deps anno okey
     sub    the NearSQL the source of the extend node translated to (possibly itself the product of a merge)
     terms, deps, anno, okey   what extend_to_near_sql computed for the extend node itself (its own SELECT list, the declared
            dependencies of every term, its annotation text, and the ops_key it would give a new step)
   MNo  : the code goes on to build a new NearSQLUnaryStep over `sub`;  MYes m : it returns the changed `sub`;
   MErr : it raises (KeyError in non_trivial_terms when a dependency entry's term was narrowed away by
          select_columns / drop_columns -- flag f_merge_skips_missing = the repaired test).

   merge_tree fl q : the whole generation with merges allowed, replayed on the tree generated WITHOUT merges: every extend
   step (mergeable, with declared dependencies) is offered to its already processed sub-query, bottom up, exactly the order
   in which extend_to_near_sql meets them. *)
From Coq Require Import List Bool Arith String Ascii.
Import ListNotations.
From DA Require Import Base.PyRT Model.NearSql.
Local Open Scope string_scope.
Local Open Scope list_scope.

Inductive mres := MErr | MNo | MYes (q : nearsql).

(* non_trivial_terms(dep_dict, term_dict); None = KeyError *)
Fixpoint non_trivial_terms (fl : flags) (dep : depmap) (tms : terms) : option (list string) :=
  match dep with
  | [] => Some []
  | (ki, vi) :: rest =>
      let missing := negb (dict_has tms ki) in
      if f_merge_skips_missing fl && missing then non_trivial_terms fl rest tms
      else
        let keep :=
          if negb (subset vi [ki]) || negb (mem ki vi) then Some true       (* len(vi - {ki}) > 0  or  ki not in vi *)
          else match dict_get tms ki with
               | None => None                                                 (* term_dict[ki] raises KeyError *)
               | Some None => Some false
               | Some (Some e) => Some (negb (String.eqb e ki))
               end in
        match keep, non_trivial_terms fl rest tms with
        | Some true, Some l => Some (ki :: l)
        | Some false, Some l => Some l
        | _, _ => None
        end
  end.

Definition deps_of (dep : depmap) (k : string) : list string := match dict_get dep k with Some d => d | None => [] end.
Definition needs (dep : depmap) (nt : list string) : list string := flat_map (deps_of dep) nt.

Definition contention (our_nt our_needs sub_nt sub_needs : list string) : list string :=
  set_inter our_nt sub_nt ++ set_inter our_nt sub_needs ++ set_inter sub_nt our_needs.

Definition oget (tms : terms) (k : string) : option string := match dict_get tms k with Some v => v | None => None end.

Definition merged_terms (our_nt : list string) (tms : terms) (deps : depmap) (ts : terms) : terms :=
  filter (fun kv => mem (fst kv) (map fst tms ++ map fst deps))
         (fold_left (fun acc k => dict_set acc k (oget tms k)) our_nt ts).
Definition merged_deps (our_nt : list string) (tms : terms) (deps ds : depmap) : depmap :=
  filter (fun kv => mem (fst kv) (map fst tms ++ map fst deps))
         (fold_left (fun acc k => dict_set acc k (deps_of deps k)) our_nt ds).

Definition sql_merge (fl : flags) (sub : nearsql) (tms : terms) (deps : depmap) (anno : string) (okey : option string) : mres :=
  match sub with
  | NUnary n ts0 s ci sfx an true (Some ds) k =>
      match sfx with
      | _ :: _ => MNo
      | [] =>
        match ts0 with
        | None => MErr                                     (* term_dict is None: the test itself raises *)
        | Some ts =>
          match non_trivial_terms fl deps tms, non_trivial_terms fl ds ts with
          | Some our_nt, Some sub_nt =>
              match contention our_nt (needs deps our_nt) sub_nt (needs ds sub_nt) with
              | _ :: _ => MNo
              | [] =>
                if negb (forallb (fun k => dict_has tms k) our_nt) then MErr      (* terms[k] raises KeyError *)
                else
                  let an' := match an with None => anno | Some a => String.append a (String.append "." anno) end in
                  let tm := merged_terms our_nt tms deps ts in
                  let dm := merged_deps our_nt tms deps ds in
                  MYes (NUnary n (Some tm) s ci [] (Some an') true (Some dm) (if f_merge_rekeys fl then okey else k))
              end
          | _, _ => MErr
          end
        end
      end
  | _ => MNo
  end.

(* select_columns_to_near_sql / drop_columns_to_near_sql narrow `subsql.terms` of the step they are given IN PLACE (the declared
   dependencies keep their entries).  In the graph generated without merges such a narrowing shows on the extend step itself;
   with merges it was applied to the merged step, AFTER the merge.  The replay therefore undoes it before the merge (the
   removed entries are pass-through columns: the window columns extend_to_near_sql adds to `using`) and redoes it after. *)
Definition unnarrowed (tms : terms) (deps : depmap) : terms := map (fun k => (k, oget tms k)) (map fst deps).
Definition narrow_to (ks : list string) (q : nearsql) : nearsql :=
  match q with
  | NUnary n (Some tm) s ci sfx an mg dp k =>
      NUnary n (Some (flat_map (fun c => match dict_get tm c with Some v => [(c, v)] | None => [] end) ks)) s ci sfx an mg dp k
  | _ => q
  end.
Fixpoint str_list_eqb (a b : list string) : bool :=
  match a, b with [], [] => true | x :: s, y :: t => String.eqb x y && str_list_eqb s t | _, _ => false end.

Fixpoint merge_tree (fl : flags) (q : nearsql) : option nearsql :=
  match q with
  | NTable _ _ | NCte _ _ | NRaw0 _ _ _ _ _ _ => Some q
  | NUnary n t s ci sfx an mg dp k =>
      match merge_tree fl s with
      | None => None
      | Some s' =>
          match t, dp, an, mg with
          | Some tms, Some deps, Some anno, true =>
              let narrowed := negb (str_list_eqb (map fst tms) (map fst deps)) in
              match sql_merge fl s' (if narrowed then unnarrowed tms deps else tms) deps anno k with
              | MErr => None
              | MYes m => Some (if narrowed then narrow_to (map fst tms) m else m)
              | MNo => Some (NUnary n t s' ci sfx an mg dp k)
              end
          | _, _, _, _ => Some (NUnary n t s' ci sfx an mg dp k)
          end
      end
  | NBinary n t s1 c1 j s2 c2 sfx an k =>
      match merge_tree fl s1, merge_tree fl s2 with
      | Some a, Some b => Some (NBinary n t a c1 j b c2 sfx an k)
      | _, _ => None
      end
  | NRaw1 n p s ci sfx an a k =>
      match merge_tree fl s with Some s' => Some (NRaw1 n p s' ci sfx an a k) | None => None end
  end.

(* ------------------------------------------------------------------ where the declared dependencies come from *)
(* extend_to_near_sql, before the merge test: every column passed through depends on itself; every assigned column on the
   columns its expression mentions (oi.get_column_names) and on the window's columns, `window_vars` = partition_by and
   order_by (ascending and reversed alike: reversal is only a DESC in the text).
     demand  : the demanded columns after `using.union(partition_by, order_by, reverse)`, in order
     subops  : the assignments kept (name, columns the expression mentions), in order *)
Definition declared_deps (demand : list string) (subops : list (string * list string)) (partition order : list string) : depmap :=
  map (fun k => (k, [k])) (filter (fun k => negb (mem k (map fst subops))) demand)
  ++ map (fun ke => (fst ke, snd ke ++ partition ++ order)) subops.

(* ------------------------------------------------------------------ meaning of a SELECT list over columns *)
(* V = whatever a column is (a list of values, one per row of the sub-query).  The opaque SQL expression text e denotes
   `tsem e f` on the columns f of the sub-query (row-wise expressions and window functions alike: f carries whole columns). *)
Section Sel.
Variable V : Type.
Variable tsem : string -> (string -> option V) -> option V.

Definition cframe := string -> option V.

(* enc_term_: a missing term, a None term, or a term equal to its own name is the column itself *)
Definition term_val (tms : terms) (k : string) (f : cframe) : option V :=
  match dict_get tms k with
  | Some (Some e) => if String.eqb e k then f k else tsem e f
  | _ => f k
  end.

(* SELECT <cols> FROM f, each column through term_val *)
Definition select (tms : terms) (cols : list string) (f : cframe) : cframe :=
  fun c => if mem c cols then term_val tms c f else None.

(* the declared dependencies describe the expression: it looks at no other column *)
Definition deps_describe (tms : terms) (dep : depmap) : Prop :=
  forall k e, dict_get tms k = Some (Some e) -> String.eqb e k = false ->
    forall f f' : cframe, (forall d, In d (deps_of dep k) -> f d = f' d) -> tsem e f = tsem e f'.
End Sel.
Arguments term_val {V}. Arguments select {V}. Arguments deps_describe {V}.
