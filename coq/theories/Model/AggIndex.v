(* C05 -- index sets of the aggregate / window theorems, derived from the frozen catalogue *)
From Coq Require Import List Bool QArith String.
Import ListNotations.
From DA Require Import Model.Scalar Model.SqlTemplates Model.ScalarBackends Model.ScalarCatalog Model.ScalarIndex Model.AggModels.
Local Open Scope string_scope.

(* ------------------------------------------------------------------ aggregates and window functions *)
Definition row_op (r : catrow) : string := let '(_, o, _, _, _, _) := r in o.
Definition row_class (r : catrow) : string := let '(_, _, c, _, _, _) := r in c.
Definition cls_of (s : string) : option acls :=
  if String.eqb s "p" || String.eqb s "up" then Some CProject
  else if String.eqb s "g" then Some CGroup
  else if String.eqb s "w" then Some CWindow else None.
(* zero-argument helpers without a documented value, and the random generator *)
Definition undocumented : list string := ["_count"; "_ngroup"; "_uniform"].
Definition supported_agg (col : catrow -> string) : list (acls * string) :=
  flat_map (fun r => match cls_of (row_class r) with
                     | Some c => if String.eqb (col r) "y" && negb (str_in (row_op r) undocumented) then [(c, row_op r)] else []
                     | None => [] end) catalog_rows.
Definition supported_agg_pandas := supported_agg row_pandas.
Definition supported_agg_sql (d : dialect) := supported_agg (match d with DSqlite => row_sqlite | DPg => row_pg end).
Definition supported_agg_polars := supported_agg (fun _ => "y").
Definition is_window (c : acls) : bool := match c with CWindow => true | _ => false end.
(* Pandas: cumcount is the known finding C05-pandas-cumcount-position *)
Definition pd_agg_guard (c : acls) (m : string) : bool := negb (is_window c && String.eqb m "cumcount").
