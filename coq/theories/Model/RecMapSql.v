(* Hand-written model of the SQL TEXT data_algebra builds around user strings outside the expression printer:
   - concat_rows source labels (sql_model.py concat_rows_to_near_sql: the label is the literal VALUE expr_rep.Value(a_name),
     written by expr_to_sql -> value_to_sql);
   - record-map SQL (row_recs_to_blocks_query_str_list_pair, blocks_to_row_recs_query_str_list_pair, with
     table_values_to_sql_str_list and _list_join_expecting_list), transcribed loop by loop.
   The emitted text is modelled as lines of TOKENS.  A token is a keyword from a fixed enumeration (its text depends on the
   dialect only), or a user string written through quote_identifier (Id), quote_string (Lit) or value_to_sql (Val): there is
   no other way for a user string to reach the text.  `render` uses the REGENERATED quote_identifier / quote_string /
   value_to_sql.  The pandas control table is a list of named columns of cells (modelled, not verified; the harness
   compares the rendered lines with the implementation's on every run). *)
From Coq Require Import List Bool Arith ZArith Ascii String.
Import ListNotations.
From DA Require Import Base.PyRT Base.PyStr Model.Lex Model.PyVal Gen.G_Quote Gen.G_ValueToSql.

Record dialect := mk_dialect { d_fam : family; d_sq : ascii; d_iq : ascii; d_string_type : string; d_ua_start : string; d_ua_end : string }.

Inductive kw :=
  | K_sp | K_comma | K_comma_sp | K_sp_a_dot | K_sp_b_dot | K_a_dot | K_b_dot | K_AS | K_CASE | K_WHEN_CAST_b | K_string_type
  | K_close_eq | K_THEN_a | K_ELSE_END_AS | K_FROM_SELECT | K_close_a | K_CROSS | K_SELECT | K_star | K_FROM_open | K_indent
  | K_UNION_ALL | K_ua_start | K_SELECT_sp | K_ua_end | K_close_sp | K_close_b | K_ORDER_BY
  | K_MAX_CASE_WHEN | K_open_CAST | K_close_paren_sp | K_AND | K_THEN | K_ELSE_END_close_AS | K_GROUP_BY | K_ORDER_BY_sp.
Definition kw_text (d : dialect) (k : kw) : string :=
  match k with
  | K_sp => " " | K_comma => "," | K_comma_sp => ", " | K_sp_a_dot => " a." | K_sp_b_dot => " b." | K_a_dot => "a." | K_b_dot => "b."
  | K_AS => " AS " | K_CASE => " CASE " | K_WHEN_CAST_b => "  WHEN CAST(b." | K_string_type => d_string_type d
  | K_close_eq => ") = " | K_THEN_a => " THEN a." | K_ELSE_END_AS => " ELSE NULL END AS " | K_FROM_SELECT => "FROM ( SELECT * FROM "
  | K_close_a => " ) a" | K_CROSS => "CROSS JOIN (" | K_SELECT => "SELECT" | K_star => " *" | K_FROM_open => "FROM (" | K_indent => "    "
  | K_UNION_ALL => "UNION ALL " | K_ua_start => d_ua_start d | K_SELECT_sp => "SELECT " | K_ua_end => d_ua_end d | K_close_sp => ") "
  | K_close_b => " ) b" | K_ORDER_BY => " ORDER BY"
  | K_MAX_CASE_WHEN => " MAX(CASE WHEN " | K_open_CAST => " ( CAST(" | K_close_paren_sp => " ) " | K_AND => " AND " | K_THEN => " THEN "
  | K_ELSE_END_close_AS => " ELSE NULL END) AS " | K_GROUP_BY => "GROUP BY" | K_ORDER_BY_sp => "ORDER BY "
  end%string.

Inductive tok := Kw (k : kw) | Id (v : pyval) | Lit (s : string) | Val (v : pyval).
Definition line := list tok.

(* quote_identifier asserts isinstance(identifier, str): anything else raises (None) *)
Definition render_tok (d : dialect) (t : tok) : option string :=
  match t with
  | Kw k => Some (kw_text d k)
  | Id (PStr n) => quote_identifier (q1 (d_iq d)) n
  | Id _ => None
  | Lit s => Some (quote_string (q1 (d_sq d)) s)
  | Val v => Some (value_to_sql (q1 (d_sq d)) v)
  end.
Fixpoint render_line (d : dialect) (l : line) : option string :=
  match l with
  | [] => Some EmptyString
  | t :: r => match render_tok d t, render_line d r with Some a, Some b => Some (String.append a b) | _, _ => None end
  end.
Fixpoint render_lines (d : dialect) (ls : list line) : option (list string) :=
  match ls with
  | [] => Some []
  | l :: r => match render_line d l, render_lines d r with Some a, Some b => Some (a :: b) | _, _ => None end
  end.

(* ---------------------------------------------------------------- concat_rows labels *)
(* expr_left.extend({id_column: Value(a_name)}): the term is a Value; expr_to_sql writes value_to_sql(expression.value) *)
Definition concat_label_term (name : string) : pyval := PValue (PStr name).
Definition concat_label_sql (d : dialect) (name : string) : string := value_to_sql (q1 (d_sq d)) (concat_label_term name).

(* ---------------------------------------------------------------- record maps *)
Record recspec := mk_recspec { rs_cols : list (string * list pyval); rs_record_keys : list string; rs_ct_keys : list string }.

Definition cell_isnull (v : pyval) : bool := match v with PNone | PFloat FNan => true | _ => false end.
(* str(cell) *)
Definition cell_str (v : pyval) : string :=
  match v with
  | PStr s => s | POther t => t | PInt z => py_str_int z | PFloat f => py_str_float f
  | PBool true => "True" | PBool false => "False" | _ => "None"
  end%string.
Definition pyval_eqb_str (a b : pyval) : bool :=       (* equality of cells as used by `in seen` (cells are strings here) *)
  match a, b with PStr x, PStr y => String.eqb x y | _, _ => false end.

(* _list_join_expecting_list(joiner, lines): " " + line + (joiner unless last) *)
Fixpoint list_join (j : line) (ls : list line) : list line :=
  match ls with
  | [] => []
  | [l] => [Kw K_sp :: l]
  | l :: rest => (Kw K_sp :: l ++ j) :: list_join j rest
  end.
Fixpoint join_toks (sep : line) (parts : list line) : line :=
  match parts with [] => [] | [p] => p | p :: rest => p ++ sep ++ join_toks sep rest end.
Fixpoint dedup_str (seen : list string) (l : list (string * list pyval)) : list (string * list pyval) :=
  match l with
  | [] => []
  | (c, cells) :: r => if existsb (String.eqb c) seen then dedup_str seen r else (c, cells) :: dedup_str (c :: seen) r
  end.
Definition value_cols (rs : recspec) : list (string * list pyval) :=
  filter (fun cc => negb (existsb (String.eqb (fst cc)) (rs_ct_keys rs))) (rs_cols rs).
Definition nrows (rs : recspec) : nat := match rs_cols rs with [] => 0 | (_, cells) :: _ => List.length cells end.
Definition cell_at (rs : recspec) (c : string) (i : nat) : pyval :=
  match find (fun cc => String.eqb (fst cc) c) (rs_cols rs) with Some (_, cells) => nth i cells PNone | None => PNone end.

(* table_values_to_sql_str_list(ct) *)
Definition q_row (rs : recspec) (i : nat) : line :=
  [Kw K_ua_start; Kw K_SELECT_sp]
  ++ join_toks [Kw K_comma_sp] (map (fun cc => [Val (nth i (snd cc) PNone); Kw K_AS; Id (PStr (fst cc))]) (rs_cols rs))
  ++ [Kw K_ua_end].
Definition table_values (rs : recspec) : list line :=
  [[Kw K_SELECT]; [Kw K_star]; [Kw K_FROM_open]]
  ++ map (fun i => Kw K_indent :: (if Nat.ltb i 1 then [] else [Kw K_UNION_ALL]) ++ q_row rs i) (seq 0 (nrows rs))
  ++ [[Kw K_close_sp; Id (PStr "table_values")]].

(* row_recs_to_blocks_query_str_list_pair *)
Definition r2b_case_stmt (cc : string * list pyval) : line :=
  [Kw K_CASE]
  ++ flat_map (fun cell => if cell_isnull cell then []
                           else [Kw K_WHEN_CAST_b; Id (PStr (fst cc)); Kw K_AS; Kw K_string_type; Kw K_close_eq; Lit (cell_str cell);
                                 Kw K_THEN_a; Id cell; Kw K_sp]) (snd cc)
  ++ [Kw K_ELSE_END_AS; Id (PStr (fst cc))].
Definition r2b_col_stmts (rs : recspec) : list line :=
  map (fun c => [Kw K_sp_a_dot; Id (PStr c); Kw K_AS; Id (PStr c)]) (rs_record_keys rs)
  ++ map (fun c => [Kw K_sp_b_dot; Id (PStr c); Kw K_AS; Id (PStr c)]) (rs_ct_keys rs)
  ++ map r2b_case_stmt (dedup_str [] (value_cols rs)).
Definition r2b_control_cols (rs : recspec) : list line :=
  map (fun c => [Kw K_a_dot; Id (PStr c)]) (rs_record_keys rs) ++ map (fun c => [Kw K_b_dot; Id (PStr c)]) (rs_ct_keys rs).
Definition emit_r2b (rs : recspec) : list line * list line :=
  (list_join [Kw K_comma] (r2b_col_stmts rs) ++ [[Kw K_FROM_SELECT]],
   [[Kw K_close_a]; [Kw K_CROSS]] ++ list_join [] (table_values rs) ++ [[Kw K_close_b]; [Kw K_ORDER_BY]]
   ++ list_join [Kw K_comma_sp] (r2b_control_cols rs)).

(* blocks_to_row_recs_query_str_list_pair *)
Definition b2r_key_stmts (rs : recspec) : list line :=
  map (fun c => [Kw K_sp; Id (PStr c); Kw K_AS; Id (PStr c)]) (rs_record_keys rs).
Definition b2r_clause (rs : recspec) (i : nat) (cc : string) : line :=
  [Kw K_open_CAST; Id (PStr cc); Kw K_AS; Kw K_string_type; Kw K_close_eq; Lit (cell_str (cell_at rs cc i)); Kw K_close_paren_sp].
Definition b2r_max_stmt (rs : recspec) (i : nat) (vc : string) (cell : pyval) : line :=
  [Kw K_MAX_CASE_WHEN] ++ join_toks [Kw K_AND] (map (b2r_clause rs i) (rs_ct_keys rs))
  ++ [Kw K_THEN; Id (PStr vc); Kw K_ELSE_END_close_AS; Id cell].
(* for i in rows: for vc in value columns: if cell not in seen and not null: seen.add(cell); emit *)
Fixpoint b2r_scan (rs : recspec) (items : list (nat * (string * list pyval))) (seen : list pyval) : list line :=
  match items with
  | [] => []
  | (i, (vc, cells)) :: r =>
      let cell := nth i cells PNone in
      if negb (existsb (pyval_eqb_str cell) seen) && negb (cell_isnull cell)
      then b2r_max_stmt rs i vc cell :: b2r_scan rs r (cell :: seen)
      else b2r_scan rs r seen
  end.
Definition b2r_control_cols (rs : recspec) : list line := map (fun c => [Id (PStr c)]) (rs_record_keys rs).
Definition emit_b2r (rs : recspec) : list line * list line :=
  if Nat.eqb (nrows rs) 1 then
    (list_join [Kw K_comma]
       (b2r_key_stmts rs ++ map (fun cc => [Kw K_sp; Id (PStr (fst cc)); Kw K_AS; Id (nth 0 (snd cc) PNone)]) (value_cols rs))
     ++ [[Kw K_FROM_SELECT]],
     [[Kw K_close_a]])
  else
    (list_join [Kw K_comma]
       (b2r_key_stmts rs
        ++ b2r_scan rs (flat_map (fun i => map (fun cc => (i, cc)) (value_cols rs)) (seq 0 (nrows rs))) [])
     ++ [[Kw K_FROM_SELECT]],
     [[Kw K_close_a]; [Kw K_GROUP_BY]] ++ list_join [Kw K_comma] (b2r_control_cols rs) ++ [[Kw K_ORDER_BY_sp]]
     ++ list_join [Kw K_comma] (b2r_control_cols rs)).

(* ---------------------------------------------------------------- reading a rendered line back *)
(* the skeleton of a line: its keywords and the KIND of each hole *)
Inductive shape := ShKw (k : kw) | ShId | ShLit | ShVal.
Definition shape_of (t : tok) : shape := match t with Kw k => ShKw k | Id _ => ShId | Lit _ => ShLit | Val _ => ShVal end.
Inductive item := IKw (k : kw) | IId (n : string) | ILit (s : string) | IVal (v : sqlval).
Fixpoint read_shape (d : dialect) (sh : list shape) (s : string) : option (list item * string) :=
  match sh with
  | [] => Some ([], s)
  | x :: r =>
      match (match x with
             | ShKw k => option_map (fun rest => (IKw k, rest)) (strip_prefix (kw_text d k) s)
             | ShId => option_map (fun p => (IId (fst p), snd p)) (read_ident (d_iq d) s)
             | ShLit => option_map (fun p => (ILit (fst p), snd p)) (read_string_lit (d_fam d) (d_sq d) s)
             | ShVal => option_map (fun p => (IVal (fst p), snd p)) (read_value (d_fam d) (d_sq d) s)
             end) with
      | Some (it, rest) => option_map (fun p => (it :: fst p, snd p)) (read_shape d r rest)
      | None => None
      end
  end.

(* every literal token is followed by a keyword that starts with a space (or ends the line) *)
Definition starts_with_space (s : string) : bool := match s with String c _ => Ascii.eqb c " " | EmptyString => false end.
Definition follows_ok (d : dialect) (r : line) : bool :=
  match r with [] => true | Kw k :: _ => starts_with_space (kw_text d k) | _ => false end.
Fixpoint good (d : dialect) (l : line) : bool :=
  match l with
  | [] => true
  | Lit _ :: r => follows_ok d r && good d r
  | Val _ :: r => follows_ok d r && good d r
  | _ :: r => good d r
  end.
