(* correspondence cases for Model/MergeGuard.v: two chained extend calls on the real builder *)
From Coq Require Import List Bool String.
Import ListNotations.
From DA Require Import Base.Cases Model.MergeGuard.

Definition wnode_eqb (x y : wnode) : bool :=
  Bool.eqb (n_windowed x) (n_windowed y) && strs_eqb (n_part x) (n_part y)
  && strs_eqb (n_order x) (n_order y) && strs_eqb (n_rev x) (n_rev y).

Record gcase := mkg {
  g_i1 : bool; g_a1 : wargs; g_node1 : wnode;      (* first extend: implies_windowed(ops1), its arguments, the node built *)
  g_i2 : bool; g_a2 : wargs;                       (* second extend call *)
  g_mergeable : bool;                              (* try_to_merge_ops(ops1, ops2) is not None *)
  g_merged : bool;                                 (* observed: the result is ONE extend node on the table *)
  g_itop : bool; g_top : wnode }.                  (* implies_windowed of the top node's ops, the top node *)

Definition gcase_ok (c : gcase) : bool :=
  wnode_eqb (node_of (g_i1 c) (g_a1 c)) (g_node1 c)
  && Bool.eqb (merge_guard (g_i2 c) (g_a2 c) (g_node1 c) && g_mergeable c) (g_merged c)
  && wnode_eqb (node_of (g_itop c) (g_a2 c)) (g_top c).

Definition check_gcases (cs : list gcase) : list nat := failing_idx gcase_ok cs.
