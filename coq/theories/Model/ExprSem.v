(* Model/ExprSem.v -- the two meanings compared by C13, over scalar operands.

   `py_meaning` : the PYTHON reference semantics of a parse tree of python3_lark.py (which is Python's own
                  expression grammar): binary operators associate to the left, ** to the right and binds tighter
                  than a unary minus on its left, comparison chains are conjunctions, not / and / or on booleans.
   `eval`       : the DSL semantics of an expression object: what PandasModel.act_on_expression does with the
                  entries of `impl_map` (k-ary + * and or, - with one or two arguments, ...), on scalars.
   Both use the SAME scalar primitives (`arith`, `cmp`) on the common domain:
     ints and floats (exact rationals) for + - * / // % ** (true division; floor division and modulo with
     Python's sign rule; ** only with an int exponent >= 0; division by zero undefined), numeric comparisons
     (== and != also between two booleans), booleans for and / or / not.  Booleans are NOT numbers here
     (numpy adds two booleans as `or`), strings and None have no operators, evaluation is strict (no short cut).
   Method and function calls are uninterpreted: `fsem name values` on both sides.
   Outside the common domain the result is None.  No proofs here. *)
From Coq Require Import List Bool String Ascii ZArith NArith QArith Qround Qreduction Qabs.
Import ListNotations.
From DA Require Import Model.PyExpr Model.ExprParse.
Local Close Scope Q_scope.
Local Open Scope string_scope.
Local Open Scope bool_scope.
Local Open Scope list_scope.

Definition env := list (string * pval).
Fixpoint lookup (e : env) (n : string) : option pval :=
  match e with [] => None | (k, v) :: t => if n ==s k then Some v else lookup t n end.

Definition mk_float (q : Q) : pval := PFloat (negb (Qle_bool 0%Q q)) (Qred (Qabs q)).
Definition q_of_float (neg : bool) (m : Q) : Q := if neg then Qopp m else m.

(* operands as rationals when at least one is a float *)
Definition float_args (x y : pval) : option (Q * Q) :=
  match x, y with
  | PInt a, PFloat n m => Some (inject_Z a, q_of_float n m)
  | PFloat n m, PInt b => Some (q_of_float n m, inject_Z b)
  | PFloat n m, PFloat n' m' => Some (q_of_float n m, q_of_float n' m')
  | _, _ => None
  end.

Definition arith (op : string) (x y : pval) : option pval :=
  if op ==s "**" then
    match x, y with
    | PInt a, PInt b => if Z.leb 0 b then Some (PInt (Z.pow a b)) else None
    | PFloat n m, PInt b => if Z.leb 0 b then Some (mk_float (Qpower (q_of_float n m) b)) else None
    | _, _ => None
    end
  else
  match x, y with
  | PInt a, PInt b =>
      if op ==s "+" then Some (PInt (a + b))
      else if op ==s "-" then Some (PInt (a - b))
      else if op ==s "*" then Some (PInt (a * b))
      else if op ==s "/" then (if Z.eqb b 0 then None else Some (mk_float (Qmake a 1 / Qmake b 1)%Q))
      else if op ==s "//" then (if Z.eqb b 0 then None else Some (PInt (Z.div a b)))
      else if op ==s "%" then (if Z.eqb b 0 then None else Some (PInt (Z.modulo a b)))
      else None
  | _, _ =>
      match float_args x y with
      | Some (a, b) =>
          if op ==s "+" then Some (mk_float (a + b)%Q)
          else if op ==s "-" then Some (mk_float (a - b)%Q)
          else if op ==s "*" then Some (mk_float (a * b)%Q)
          else if op ==s "/" then (if Qeq_bool b 0%Q then None else Some (mk_float (a / b)%Q))
          else if op ==s "//" then (if Qeq_bool b 0%Q then None else Some (mk_float (inject_Z (Qfloor (a / b)%Q))))
          else if op ==s "%" then
            (if Qeq_bool b 0%Q then None else Some (mk_float (a - inject_Z (Qfloor (a / b)%Q) * b)%Q))
          else None
      | None => None
      end
  end.

Definition num_q (v : pval) : option Q :=
  match v with PInt a => Some (inject_Z a) | PFloat n m => Some (q_of_float n m) | _ => None end.

(* for the order comparisons a boolean counts as 0 / 1, in Python (bool is an int) and in numpy.less alike;
   == and != are defined between two numbers or two booleans (the DSL's _type_safe_equal rejects bool with int) *)
Definition ord_q (v : pval) : option Q :=
  match v with PBool b => Some (if b then 1%Q else 0%Q) | _ => num_q v end.

Definition cmp (op : string) (x y : pval) : option bool :=
  if (op ==s "==") || (op ==s "!=") || (op ==s "<>") then
    match x, y with
    | PBool a, PBool b => Some (if op ==s "==" then Bool.eqb a b else negb (Bool.eqb a b))
    | _, _ =>
        match num_q x, num_q y with
        | Some a, Some b => Some (if op ==s "==" then Qeq_bool a b else negb (Qeq_bool a b))
        | _, _ => None
        end
    end
  else
    match ord_q x, ord_q y with
    | Some a, Some b =>
        if op ==s "<" then Some (negb (Qle_bool b a))
        else if op ==s "<=" then Some (Qle_bool a b)
        else if op ==s ">" then Some (negb (Qle_bool a b))
        else if op ==s ">=" then Some (Qle_bool b a)
        else None
    | _, _ => None
    end.

Definition neg_num (v : pval) : option pval :=
  match v with PInt a => Some (PInt (- a)) | PFloat n m => Some (PFloat (negb n) m) | _ => None end.
Definition pos_num (v : pval) : option pval :=
  match v with PInt _ | PFloat _ _ => Some v | _ => None end.
Definition as_bool (v : pval) : option bool := match v with PBool b => Some b | _ => None end.

(* res = args[0]; for a in args[1:]: res = f(res, a) *)
Fixpoint fold_arith (op : string) (acc : option pval) (vs : list pval) : option pval :=
  match vs with
  | [] => acc
  | v :: t => match acc with Some a => fold_arith op (arith op a v) t | None => None end
  end.
Fixpoint fold_bool (f : bool -> bool -> bool) (acc : option bool) (vs : list pval) : option bool :=
  match vs with
  | [] => acc
  | v :: t => match acc, as_bool v with Some a, Some b => fold_bool f (Some (f a b)) t | _, _ => None end
  end.

Definition fsem_t := string -> list pval -> option pval.

(* ------------------------------------------------------------------ DSL: evaluation of an expression object *)
(* the operator names with a scalar meaning here; every other name is an uninterpreted function *)
Definition builtin_ops : list string :=
  ["+"; "*"; "-"; "/"; "//"; "%"; "**"; "=="; "!="; "<>"; "<"; "<="; ">"; ">="; "and"; "or"].
Definition is_builtin_op (op : string) : bool := mem_str op builtin_ops.

Definition eval_op (fsem : fsem_t) (op : string) (vs : list pval) : option pval :=
  if negb (is_builtin_op op) then fsem op vs
  else if (op ==s "+") || (op ==s "*") then                    (* _k_add, _k_mul *)
    match vs with v :: t => fold_arith op (Some v) t | [] => None end
  else if op ==s "-" then                                       (* _negate_or_subtract *)
    match vs with [v] => neg_num v | [a; b] => arith "-" a b | _ => None end
  else if mem_str op ["/"; "//"; "%"; "**"] then
    match vs with [a; b] => arith op a b | _ => None end
  else if mem_str op ["=="; "!="; "<>"; "<"; "<="; ">"; ">="] then
    match vs with [a; b] => option_map PBool (cmp op a b) | _ => None end
  else if op ==s "and" then                                     (* _k_and *)
    match vs with v :: t => option_map PBool (fold_bool andb (as_bool v) t) | [] => None end
  else if op ==s "or" then
    match vs with v :: t => option_map PBool (fold_bool orb (as_bool v) t) | [] => None end
  else None.

Fixpoint eval (fsem : fsem_t) (en : env) (e : expr) {struct e} : option pval :=
  match e with
  | ECol n => lookup en n
  | EVal v => Some v
  | EList _ | EDict _ => None
  | EOp op _ _ _ args =>
      match all_some (map (eval fsem en) args) with
      | Some vs => eval_op fsem op vs
      | None => None
      end
  end.

(* ------------------------------------------------------------------ Python: meaning of the parse tree *)
(* value (op value)*, left to right *)
Fixpoint py_chain_arith (acc : option pval) (ops : list (option string)) (vs : list (option pval)) : option pval :=
  match ops, vs with
  | [], [] => acc
  | Some o :: ops', Some v :: vs' =>
      match acc with
      | Some a => if mem_str o ["+"; "-"; "*"; "/"; "//"; "%"] then py_chain_arith (arith o a v) ops' vs' else None
      | None => None
      end
  | _, _ => None
  end.

(* a op1 b op2 c ...  =  (a op1 b) and (b op2 c) and ...   every operand evaluated once *)
Fixpoint py_chain_cmp (prev : pval) (ops : list (option string)) (vs : list (option pval)) : option bool :=
  match ops, vs with
  | [], [] => Some true
  | Some o :: ops', Some v :: vs' =>
      match cmp o prev v, py_chain_cmp v ops' vs' with
      | Some b, Some r => Some (b && r)
      | _, _ => None
      end
  | _, _ => None
  end.

(* a method whose call builds exactly Expression(name, [self, args...]) *)
Definition plain_method (m : string) (nargs : nat) : bool :=
  match find_method m method_table, nargs with
  | Some (MUop op), 0 => op ==s m
  | Some (MBin op _ _ _), 1 => op ==s m
  | Some (MTri op _ _), 2 => op ==s m
  | _, _ => false
  end.

Definition py_node (fsem : fsem_t) (d : string) (cs : list ltree) (vs : list (option pval))
    (gvs avs : option (list (option pval))) : option pval :=
  if d ==s "const_true" then Some (PBool true)
  else if d ==s "const_false" then Some (PBool false)
  else if d ==s "const_none" then Some PNone
  else if mem_str d ["number"; "string"; "var"] then
    match vs with [v] => v | _ => None end
  else if mem_str d ["or_test"; "and_test"] then
    if Nat.ltb (List.length cs) 2 then None
    else match all_some vs with
         | Some (v :: t) => option_map PBool (fold_bool (if d ==s "or_test" then orb else andb) (as_bool v) t)
         | _ => None
         end
  else if d ==s "not" then
    match vs with [Some (PBool b)] => Some (PBool (negb b)) | _ => None end
  else if d ==s "comparison" then
    if Nat.ltb (List.length cs) 3 || Nat.even (List.length cs) then None
    else match evens vs with
         | Some v :: t => option_map PBool (py_chain_cmp v (map tok_text (odds cs)) t)
         | _ => None
         end
  else if mem_str d ["arith_expr"; "term"] then
    if Nat.ltb (List.length cs) 3 || Nat.even (List.length cs) then None
    else match evens vs with
         | Some v :: t => py_chain_arith (Some v) (map tok_text (odds cs)) t
         | _ => None
         end
  else if d ==s "factor" then
    match cs, vs with
    | [o; _], [_; Some v] =>
        match tok_text o with
        | Some op => if op ==s "-" then neg_num v else if op ==s "+" then pos_num v else None
        | None => None
        end
    | _, _ => None
    end
  else if d ==s "power" then
    match vs with [Some b; Some e] => arith "**" b e | _ => None end
  else if d ==s "funccall" then
    match cs with
    | [carrier; a] =>
        let args : option (list pval) :=
          match a with
          | LNone => Some []
          | LNode ad _ => if ad ==s "arguments" then match avs with Some l => all_some l | None => None end else None
          | LTok _ => None
          end in
        match carrier, args with
        | LNode cd ccs, Some avals =>
            if cd ==s "getattr" then
              match ccs, gvs with
              | [_; LTok (TName m)], Some [Some self; _] =>
                  if plain_method m (List.length avals) && negb (is_builtin_op m) then fsem m (self :: avals) else None
              | _, _ => None
              end
            else if cd ==s "var" then
              match ccs with
              | [LTok (TName f)] => if is_builtin_op f then None else fsem f avals
              | _ => None
              end
            else None
        | _, _ => None
        end
    | _ => None
    end
  else None.

Fixpoint py_meaning (fsem : fsem_t) (en : env) (t : ltree) {struct t} : option pval :=
  match t with
  | LNone => None
  | LTok tk =>
      match tk with
      | TInt n => Some (PInt (Z.of_N n))
      | TFloat (Some m) => Some (PFloat false m)
      | TStr s => Some (PStr s)
      | TName s => lookup en s
      | _ => None
      end
  | LNode d cs =>
      let vs := map (py_meaning fsem en) cs in
      let gvs := match cs with LNode _ gcs :: _ => Some (map (py_meaning fsem en) gcs) | _ => None end in
      let avs := match cs with _ :: LNode _ acs :: _ => Some (map (py_meaning fsem en) acs) | _ => None end in
      py_node fsem d cs vs gvs avs
  end.

(* comparison chains: a comparison node with more than one operator *)
Fixpoint no_chain (t : ltree) : bool :=
  match t with
  | LNode d cs => negb ((d ==s "comparison") && Nat.ltb 3 (List.length cs)) && forallb no_chain cs
  | _ => true
  end.

(* ------------------------------------------------------------------ concrete scalar functions for the case files *)
Definition concrete_fsem : fsem_t := fun name vs =>
  if name ==s "abs" then
    match vs with [PInt a] => Some (PInt (Z.abs a)) | [PFloat _ m] => Some (PFloat false m) | _ => None end
  else if name ==s "if_else" then
    match vs with [PBool c; a; b] => Some (if c then a else b) | _ => None end
  else if mem_str name ["maximum"; "fmax"] then
    match vs with [a; b] => match cmp "<" a b with Some lt => Some (if lt then b else a) | None => None end | _ => None end
  else if mem_str name ["minimum"; "fmin"] then
    match vs with [a; b] => match cmp "<" a b with Some lt => Some (if lt then a else b) | None => None end | _ => None end
  else None.
