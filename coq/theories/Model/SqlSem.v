(* SQLGEN -- the meaning of a typed NearSQL tree (Model/SqlGen.v): what the SQL text written from it computes.

   This is a semantics of the generated SQL FRAGMENT, written from the SQL rules, not from data_algebra:

     SELECT <items> FROM <sub-query> [WHERE e | GROUP BY cs | ORDER BY ks [LIMIT n]]
       logical order FROM -> WHERE -> GROUP BY / aggregation -> window functions -> SELECT list -> ORDER BY -> LIMIT;
       WHERE keeps the rows whose predicate is TRUE (not FALSE, not NULL);
       GROUP BY makes one group per distinct key, NULL being a key value of its own; an aggregate in the SELECT list without
       GROUP BY makes the whole input ONE group (one row, also for an empty input);
       a window item is evaluated per partition (NULL a partition key of its own), the partition ordered by the ORDER BY
       keys with the dialect's NULL placement, default frame (running functions see the rows up to the current one);
       ORDER BY sorts (the dialect's NULL placement), LIMIT keeps a prefix;
     <q1> UNION ALL <q2>    positional: the first operand's column names, its rows followed by the other's;
     <q1> <jt> JOIN <q2> ON l.a = r.b AND ...   the SQL join of Model/JoinSpec.v (C16: written from the standard; three-valued
       `=`, NULL extension), the SELECT list evaluated on each joined pair: COALESCE(first.c, second.c) or an unqualified
       column, which must not be a column of both operands (SQL: "ambiguous column name" -> no result);
     a table referred to by name is the stored table with ALL its columns; SELECT * keeps the sub-query's columns.

   What a SELECT list selects follows nearsql{table,unary,binary}_to_sql_str_list_ / enc_term_ of sql_model.py (the `columns`
   narrowing a container passes down; a unary step asked for none of its columns writes all its own terms; no terms = "*").

   Shared with Model/Sem.v (primitive functions only): eval_expr (scalar expressions under the flavour's three-valued
   conventions), agg_value / agg_fn, win_fn, stable_sort, row_le, distinct_keys / keys_eqv / key_of, get, sem_select_cols (the
   projection of a table on named columns).  NOT used: sem_gen and the sem_* step functions of the pipeline semantics.
   A column a sub-query does not supply reads NULL (SQLite: an unknown double-quoted identifier falls back to a string
   literal; the correctness theorem shows no requested column ever depends on such a read).
   Row order: a list-based semantics fixes ONE of the row orders SQL allows (input order is kept by every step but ORDER BY);
   Props/SQLGEN.v states what it proves up to that choice.   No proofs in this file. *)
From Coq Require Import List Bool Arith String.
Import ListNotations.
From DA Require Import Base.PyRT Base.Val Model.Sem Model.ColumnsUsed Model.JoinSpec Model.SqlGen.
Local Open Scope string_scope.
Local Open Scope list_scope.

Section SqlSem.
Variable fl : flavor.          (* the engine's conventions: fl_sqlite, fl_postgres *)

(* ------------------------------------------------------------------ which columns a SELECT writes *)
(* None = "*" *)
Definition select_keys (own_fallback : bool) (tms : option terms) (want : option (list string)) : option (list string) :=
  match tms with
  | None => if own_fallback then None                                (* unary: terms is None -> "*" whatever `columns` says *)
            else match want with Some (_ :: _ as c) => Some c | _ => None end     (* binary: terms = {} ; enc_term_ passes names through *)
  | Some l =>
      let c := match want with Some c => c | None => map fst l end in
      let c := if own_fallback && is_nil c && negb (is_nil l) then map fst l else c in
      match c with [] => None | _ => Some c end
  end.

(* ------------------------------------------------------------------ one SELECT over one input table *)
Definition is_agg_term (t : tterm) : bool := match t with TmAgg _ => true | _ => false end.
Definition is_win_term (t : tterm) : bool := match t with TmWin _ _ _ => true | _ => false end.

(* an item evaluated on one row of the input *)
Definition eval_item (cs : list string) (r : list val) (k : string) (t : tterm) : val :=
  match t with
  | TmPass | TmSelf => get cs r k
  | TmCol c => get cs r c
  | TmExpr e => eval_expr fl cs r e
  | _ => VNull
  end.

(* the value of a window item for every row position of the input: per partition, ordered, default frame *)
Definition sql_window_column (part : list string) (okeys : list (string * bool)) (t : table) (e : expr) : list (nat * val) :=
  let cs := cols t in
  let tagged := tag_from 0 (rows t) in
  let groups := distinct_keys (map (fun r => key_of cs part r) (rows t)) in
  flat_map (fun k =>
              let prt := filter (fun ir => keys_eqv k (key_of cs part (snd ir))) tagged in
              let sorted := stable_sort (fun a b => row_le fl cs okeys (snd a) (snd b)) prt in
              match win_parts e with
              | Some (op, arg, extra) =>
                  let vs := map (fun ir => match arg with Some a => eval_expr fl cs (snd ir) a | None => VBool true end) sorted in
                  combine (map fst sorted) (win_fn fl op extra vs)
              | None => map (fun ir => (fst ir, VNull)) sorted
              end) groups.

(* rows of a SELECT whose items are row-wise expressions and window functions *)
Definition select_rows_of (t : table) (items : list (string * tterm)) (rs : list (nat * list val)) : list (list val) :=
  let wcols := map (fun kt => match snd kt with
                              | TmWin e part okeys => sql_window_column part okeys t e
                              | _ => []
                              end) items in
  map (fun ir => map (fun ktw => match snd (fst ktw) with
                                 | TmWin _ _ _ => lookup_pos (snd ktw) (fst ir)
                                 | tm => eval_item (cols t) (snd ir) (fst (fst ktw)) tm
                                 end) (combine items wcols)) rs.

(* rows of an aggregating SELECT: one per group *)
Definition agg_item (cs gb : list string) (key : list val) (grp : list (list val)) (k : string) (t : tterm) : val :=
  let bare c := match index_of c gb with Some i => nth i key VNull | None => get cs (hd [] grp) c end in
  match t with
  | TmAgg e => agg_value fl cs grp e
  | TmPass | TmSelf => bare k
  | TmCol c => bare c
  | TmExpr e => eval_expr fl cs (hd [] grp) e
  | _ => VNull
  end.
Definition agg_rows (t : table) (gb : list string) (items : list (string * tterm)) : list (list val) :=
  let cs := cols t in
  let groups := match gb with [] => [[]] | _ => distinct_keys (map (key_of cs gb) (rows t)) end in
  map (fun key => let grp := filter (fun r => keys_eqv key (key_of cs gb r)) (rows t) in
                  map (fun kt => agg_item cs gb key grp (fst kt) (snd kt)) items) groups.

Definition sort_limit (cs : list string) (keys : list (string * bool)) (lim : option nat) (rs : list (list val)) : list (list val) :=
  let sorted := stable_sort (row_le fl cs keys) rs in
  match lim with Some n => firstn n sorted | None => sorted end.

Definition item_of_terms (l : terms) (k : string) : string * tterm := (k, term_of l k).

(* SELECT keys(tms, cols) FROM t sfx ; None = the shape is not one the generator writes (not modelled) *)
Definition sql_select (own_fallback : bool) (tms : option terms) (want : option (list string)) (sfx : tsuffix) (t : table)
  : option table :=
  let l := match tms with Some l => l | None => [] end in
  match select_keys own_fallback tms want with
  | None =>                                                                 (* SELECT * *)
      match sfx with
      | SfxNone => Some t
      | SfxWhere e => Some (mktable (cols t) (filter (fun r => truth (eval_expr fl (cols t) r e)) (rows t)))
      | SfxOrder keys lim => Some (mktable (cols t) (sort_limit (cols t) keys lim (rows t)))
      | SfxGroup _ => None
      end
  | Some ks =>
      let items := map (item_of_terms l) ks in
      let has_agg := existsb (fun kt => is_agg_term (snd kt)) items in
      let has_win := existsb (fun kt => is_win_term (snd kt)) items in
      match sfx with
      | SfxGroup gb => if has_win then None else Some (mktable ks (agg_rows t gb items))
      | SfxNone => if has_agg then (if has_win then None else Some (mktable ks (agg_rows t [] items)))
                   else Some (mktable ks (select_rows_of t items (tag_from 0 (rows t))))
      | SfxWhere e =>
          if has_agg || has_win then None
          else Some (mktable ks (select_rows_of t items (tag_from 0 (filter (fun r => truth (eval_expr fl (cols t) r e)) (rows t)))))
      | SfxOrder keys lim =>
          if has_agg || has_win then None
          else Some (mktable ks (select_rows_of t items (tag_from 0 (sort_limit (cols t) keys lim (rows t)))))
      end
  end.

(* ------------------------------------------------------------------ binary steps *)
Definition union_all (a b : table) : option table :=
  if Nat.eqb (List.length (cols a)) (List.length (cols b)) then Some (mktable (cols a) (rows a ++ rows b)) else None.

(* the joined pairs of Model/JoinSpec.v: matched pairs, then the NULL-extended unmatched rows the join type keeps *)
Definition join_pairs (jt : jointype) (on : list (string * string)) (a b : table) : list (option row * option row) :=
  let tn := map (fun p => (Some (fst p), Some (snd p))) (joined_TN on a b) in
  let xn1 := map (fun r => (Some r, @None row)) (unmatched_left on a b) in
  let xn2 := map (fun r => (@None row, Some r)) (unmatched_right on a b) in
  match jt with
  | JInner => tn
  | JLeft => tn ++ xn1
  | JRight => tn ++ xn2
  | JFull => tn ++ xn1 ++ xn2
  end.
Definition join_item (ca cb : list string) (ra rb : option row) (k : string) (t : tterm) : val :=
  match t with
  | TmCoalesce left_first c =>
      let va := cell ca ra c in let vb := cell cb rb c in
      if left_first then (if sql_is_null va then vb else va) else (if sql_is_null vb then va else vb)
  | TmPass | TmSelf => if mem k ca then cell ca ra k else cell cb rb k
  | TmCol c => if mem c ca then cell ca ra c else cell cb rb c
  | _ => VNull
  end.
(* an unqualified column name that both operands have *)
Definition ambiguous (ca cb : list string) (items : list (string * tterm)) : bool :=
  existsb (fun kt => match snd kt with
                     | TmPass | TmSelf => mem (fst kt) ca && mem (fst kt) cb
                     | TmCol c => mem c ca && mem c cb
                     | _ => false
                     end) items.
Definition sql_join_select (tms : option terms) (want : option (list string)) (jt : jointype) (on : list (string * string))
           (a b : table) : option table :=
  let l := match tms with Some l => l | None => [] end in
  match select_keys false tms want with
  | None =>                                                   (* SELECT * over a join (nothing of it is requested): every column of both operands *)
      let ext (cs : list string) (r : option row) := match r with Some x => x | None => map (fun _ => VNull) cs end in
      Some (mktable (cols a ++ cols b) (map (fun p => ext (cols a) (fst p) ++ ext (cols b) (snd p)) (join_pairs jt on a b)))
  | Some ks =>
      let items := map (item_of_terms l) ks in
      if ambiguous (cols a) (cols b) items then None
      else Some (mktable ks (map (fun p => map (fun kt => join_item (cols a) (cols b) (fst p) (snd p) (fst kt) (snd kt)) items)
                                 (join_pairs jt on a b)))
  end.

(* ------------------------------------------------------------------ trees *)
(* convert_subsql: a table that is not forced is referred to by name *)
Definition by_name (s : tnear) (ci : tcinfo) : bool := match s with TTable _ _ => negb (tc_force ci) | _ => false end.
(* nearsqltable_to_sql_str_list_: columns default to the keys of terms; none = "*" *)
Definition table_cols (tms : option (list string)) (want : option (list string)) : list string :=
  match want with Some c => c | None => match tms with Some t => t | None => [] end end.

(* qsem e q cols = the meaning of q.to_sql_str_list(columns=cols, force_sql=True) over the stored tables e *)
Fixpoint qsem (e : env) (q : tnear) (want : option (list string)) : option table :=
  match q with
  | TTable n tms =>
      match dict_get e n with
      | Some t => Some (match table_cols tms want with [] => t | c => sem_select_cols c t end)
      | None => None
      end
  | TUnary _ tms s ci sfx _ _ =>
      match (if by_name s ci then match s with TTable n _ => dict_get e n | _ => None end else qsem e s (tc_cols ci)) with
      | Some t => sql_select true tms want sfx t
      | None => None
      end
  | TBinary _ tms s1 c1 j s2 c2 on =>
      match (if by_name s1 c1 then match s1 with TTable n _ => dict_get e n | _ => None end else qsem e s1 (tc_cols c1)),
            (if by_name s2 c2 then match s2 with TTable n _ => dict_get e n | _ => None end else qsem e s2 (tc_cols c2)) with
      | Some a, Some b =>
          match j with
          | TUnion => match union_all a b with Some u => sql_select false tms want SfxNone u | None => None end
          | TJoin jt => sql_join_select tms want jt on a b
          end
      | _, _ => None
      end
  end.

(* a sub-query in its container *)
Definition csem (e : env) (s : tnear) (ci : tcinfo) : option table :=
  if by_name s ci then match s with TTable n _ => dict_get e n | _ => None end else qsem e s (tc_cols ci).

(* the whole query, as SQLModel.to_sql writes it: to_sql_str_list(force_sql=True), columns=None *)
Definition nsem (q : tnear) (e : env) : option table := qsem e q None.

End SqlSem.
