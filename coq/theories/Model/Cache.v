(* Hand model of data_algebra/eval_cache.py: make_cache_key and ResultCache over a heap of frames.
   F = frame values; hash = hash_data_frame (shape, columns and SHA-256 of the pandas row hashes);
   sort_keys = list.sort on the data map's keys.  Frames live in a heap so that `.copy()` is observable. *)
From Coq Require Import List Bool Arith String.
Import ListNotations.
From DA Require Import Base.PyRT.

Section C.
Context {F : Type} `{EqDec F} (hash : F -> string) (sort_keys : list string -> list string).

Definition ekey := (string * string * list (string * string))%type.

(* EvalKey(db_model_name=str(db_model), sql=sql, dat_map_list=tuple((k, hash_data_frame(data_map[k])) for k in sorted keys)) *)
Definition make_key (name sql : string) (dm : pydict string F) : ekey :=
  (name, sql,
   flat_map (fun k => match dict_get dm k with Some f => [(k, hash f)] | None => [] end) (sort_keys (dict_keys dm))).

Definition loc := nat.
Record cstate := mkc { heap : list F; cache : pydict ekey loc; dirty : bool }.
Definition c_init : cstate := mkc [] [] false.

Inductive cop :=
  | CNew (f : F)                                              (* the caller builds a frame *)
  | CMutate (l : loc) (f : F)                                 (* the caller overwrites a frame it holds, in place *)
  | CStore (name sql : string) (dm : pydict string loc) (res : loc)
  | CGet (name sql : string) (dm : pydict string loc)
  | CRead (l : loc).
Inductive cout := RLoc (l : loc) | RVal (f : F) | RUnit | RKeyError | RBad.

Fixpoint set_nth {A} (i : nat) (v : A) (l : list A) : list A :=
  match i, l with
  | _, [] => []
  | O, _ :: t => v :: t
  | S j, x :: t => x :: set_nth j v t
  end.

(* resolve a data map of locations to frame values; None if a location is dangling *)
Fixpoint resolve (h : list F) (dm : pydict string loc) : option (pydict string F) :=
  match dm with
  | [] => Some []
  | (k, l) :: t => match nth_error h l, resolve h t with Some f, Some r => Some ((k, f) :: r) | _, _ => None end
  end.

Definition c_step (s : cstate) (o : cop) : cstate * cout :=
  match o with
  | CNew f => (mkc (heap s ++ [f]) (cache s) (dirty s), RLoc (List.length (heap s)))
  | CMutate l f => if Nat.ltb l (List.length (heap s)) then (mkc (set_nth l f (heap s)) (cache s) (dirty s), RUnit) else (s, RBad)
  | CStore name sql dm res =>
      match resolve (heap s) dm, nth_error (heap s) res with
      | Some m, Some r =>
          let k := make_key name sql m in
          match dict_get (cache s) k with
          | Some pl => match nth_error (heap s) pl with
                       | Some prev => if eqb prev r then (s, RUnit)                          (* previous.equals(res): return *)
                                      else (mkc (heap s ++ [r]) (dict_set (cache s) k (List.length (heap s))) true, RUnit)
                       | None => (s, RBad)
                       end
          | None => (mkc (heap s ++ [r]) (dict_set (cache s) k (List.length (heap s))) true, RUnit)   (* res.copy() *)
          end
      | _, _ => (s, RBad)
      end
  | CGet name sql dm =>
      match resolve (heap s) dm with
      | Some m =>
          match dict_get (cache s) (make_key name sql m) with
          | Some pl => match nth_error (heap s) pl with
                       | Some r => (mkc (heap s ++ [r]) (cache s) (dirty s), RLoc (List.length (heap s)))   (* res.copy() *)
                       | None => (s, RBad)
                       end
          | None => (s, RKeyError)
          end
      | None => (s, RBad)
      end
  | CRead l => match nth_error (heap s) l with Some f => (s, RVal f) | None => (s, RBad) end
  end.

(* ---- the abstract cache: a map from keys to frame VALUES; the caller's heap is kept only for numbering *)
Record astate := mka { aheap : list F; acache : pydict ekey F }.
Definition a_init : astate := mka [] [].
Definition a_step (s : astate) (o : cop) : astate * cout :=
  match o with
  | CNew f => (mka (aheap s ++ [f]) (acache s), RLoc (List.length (aheap s)))
  | CMutate l f => if Nat.ltb l (List.length (aheap s)) then (mka (set_nth l f (aheap s)) (acache s), RUnit) else (s, RBad)
  | CStore name sql dm res =>
      match resolve (aheap s) dm, nth_error (aheap s) res with
      | Some m, Some r =>
          let k := make_key name sql m in
          match dict_get (acache s) k with
          | Some prev => if eqb prev r then (s, RUnit) else (mka (aheap s ++ [r]) (dict_set (acache s) k r), RUnit)
          | None => (mka (aheap s ++ [r]) (dict_set (acache s) k r), RUnit)
          end
      | _, _ => (s, RBad)
      end
  | CGet name sql dm =>
      match resolve (aheap s) dm with
      | Some m => match dict_get (acache s) (make_key name sql m) with
                  | Some r => (mka (aheap s ++ [r]) (acache s), RLoc (List.length (aheap s)))
                  | None => (s, RKeyError)
                  end
      | None => (s, RBad)
      end
  | CRead l => match nth_error (aheap s) l with Some f => (s, RVal f) | None => (s, RBad) end
  end.

(* locations the caller legitimately holds: results of CNew and CGet *)
Fixpoint run_c (s : cstate) (ops : list cop) : list cout :=
  match ops with [] => [] | o :: t => let '(s', r) := c_step s o in r :: run_c s' t end.
Fixpoint run_a (s : astate) (ops : list cop) : list cout :=
  match ops with [] => [] | o :: t => let '(s', r) := a_step s o in r :: run_a s' t end.

Definition mutates_only (owned : list loc) (o : cop) : bool :=
  match o with CMutate l _ => mem l owned | _ => true end.
(* a history is well-behaved when every CMutate targets a location previously RETURNED to the caller *)
Fixpoint well_behaved (s : cstate) (owned : list loc) (ops : list cop) : bool :=
  match ops with
  | [] => true
  | o :: t => mutates_only owned o &&
              let '(s', r) := c_step s o in
              well_behaved s' (match r with RLoc l => l :: owned | _ => owned end) t
  end.
End C.
