(* C07 -- hand model of pipeline composition in data_algebra, over the operator trees of Model/Sem.v.

   Transcribed from /repo/data_algebra (modelled, not generated; tied to the code by harness/props/C07.py):
     view_representations.py   every  <Node>.replace_leaves          -> replace_leaves_with / fw_code
                               the builder methods they re-run        -> b_* (UN-SIMPLIFIED, see below)
                               ExtendNode.__init__ window bookkeeping -> extend_node, implies_windowed
                               ViewRepresentation.get_tables, act_on  -> get_tables, act_on, rshift
     arrow.py                  DataOpArrow.__init__/act_on/dom/cod    -> data_op_arrow, arrow_act_on, dom, cod
     shift_pipe_action.py      a >> b  ==  b.act_on(a)                -> rshift, arrow_rshift

   A replace_leaves method does not copy its node: it RE-RUNS the builder method on the new source and forwards
   some of the node's fields as arguments.  Every forwarded argument is a field of an explicit argument record
   below, so that "this replace_leaves forgets `limit`" is a one-line difference between model and code
   (fw_code is the forwarding of the code as of /repo commits bd1e9c5, 4c01664, bd78577 -- the three C07 fixes;
   fw_before_fixes is what the tree did before them and is kept only as the witness of the `_refuted` theorems).

   NOT modelled here (stated in Props/C07.v and in the evidence): the simplifications a re-run builder may apply
   when the new source ends in a suitable node -- extend merging (try_to_merge_ops), skipping of an intermediate
   order_rows without limit (is_trivial_when_intermediate_), select_columns collapsing over select/drop, and the
   `return self` shortcuts for empty arguments.  The b_* builders below always create the node.  That these
   simplifications preserve meaning is property C06 (Props/C06.v, Model/MergeGuard.v, Gen/G_MergeOps.v); the C07
   correspondence compares such cases semantically and counts them, and the C07 oracle runs the real builders. *)
From Coq Require Import List Bool Arith String.
Import ListNotations.
From DA Require Import Base.PyRT Base.Val Model.Sem.
Local Open Scope string_scope.
Local Open Scope list_scope.

(* ------------------------------------------------------------------ expr_rep.implies_windowed *)
(* expr_rep.fn_names_that_imply_windowed_situation (compared with the real set on every run) *)
Definition fn_names_that_imply_windowed_situation : list string :=
  ["_ngroup"; "_row_number"; "all"; "any"; "bfill"; "count"; "cumcount"; "cummax"; "cummin"; "cumprod"; "cumsum"; "ffill";
   "first"; "head"; "is_monotonic_decreasing"; "is_monotonic_increasing"; "last"; "max"; "mean"; "median"; "min"; "ngroup";
   "nlargest"; "nsmallest"; "nth"; "nunique"; "ohlc"; "pct_change"; "rank"; "row_number"; "shift"; "size"; "std"; "sum";
   "tail"; "unique"; "value_counts"; "var"].

(* for opk in parsed_exprs.values(): if isinstance(opk, Expression) and opk.op in fn_names...: return True *)
Definition implies_windowed (ops : list (string * expr)) : bool :=
  existsb (fun ke => match snd ke with EOp o _ => mem o fn_names_that_imply_windowed_situation | _ => false end) ops.

Definition nonempty {A} (l : list A) : bool := match l with [] => false | _ => true end.

(* ------------------------------------------------------------------ argument records of the builder methods *)
(* partition_by is the number 1 or a list of columns (None is the empty list) *)
Inductive part_arg := PartOne | PartCols (cs : list string).
Definition part_cols (p : part_arg) : list string := match p with PartOne => [] | PartCols cs => cs end.
Definition part_is_one (p : part_arg) : bool := match p with PartOne => true | PartCols _ => false end.

Record extend_args := mk_extend_args {           (* extend_parsed_(parsed_ops, *, partition_by=None, order_by=None, reverse=None) *)
  ea_parsed_ops : list (string * expr); ea_partition_by : part_arg; ea_order_by : list string; ea_reverse : list string }.
Record project_args := mk_project_args {         (* project_parsed_(parsed_ops=None, *, group_by=None) *)
  pa_parsed_ops : list (string * expr); pa_group_by : list string }.
Record select_rows_args := mk_select_rows_args { (* select_rows_parsed_(parsed_expr) *)
  sr_parsed_expr : expr }.
Record select_columns_args := mk_select_columns_args { sc_columns : list string }.            (* select_columns(columns) *)
Record drop_columns_args := mk_drop_columns_args { dc_column_deletions : list string }.       (* drop_columns(column_deletions) *)
Record order_rows_args := mk_order_rows_args {   (* order_rows(columns, *, reverse=None, limit=None) *)
  oa_columns : list string; oa_reverse : list string; oa_limit : option nat }.
Record map_columns_args := mk_map_columns_args { (* map_columns(column_remapping): OLD name -> NEW name, or None = delete *)
  mc_column_remapping : list (string * option string) }.
Record rename_columns_args := mk_rename_columns_args {   (* rename_columns(column_remapping): NEW name -> OLD name *)
  rc_column_remapping : list (string * string) }.
Record natural_join_args := mk_natural_join_args {       (* natural_join(b, *, on=None, jointype, check_all_common_keys_in_equi_spec=False) *)
  nj_b : op; nj_on : list (string * string); nj_jointype : jointype }.
Record concat_rows_args := mk_concat_rows_args {         (* concat_rows(b, *, id_column="source_name", a_name="a", b_name="b") *)
  cr_b : op; cr_id_column : option string; cr_a_name : string; cr_b_name : string }.

(* ------------------------------------------------------------------ the builder methods, un-simplified *)
(* ExtendNode.__init__: windowed_situation = implies_windowed(parsed_ops) or partition_by is a number or
   len(partition_by) > 0 or len(order_by) > 0; the number 1 is stored as the empty list *)
Definition extend_node (src : op) (a : extend_args) : op :=
  let part := part_cols (ea_partition_by a) in
  OExtend src (ea_parsed_ops a)
          (implies_windowed (ea_parsed_ops a) || part_is_one (ea_partition_by a) || nonempty part || nonempty (ea_order_by a))
          (mkwin part (ea_order_by a) (ea_reverse a)).
Definition b_extend_parsed (src : op) (a : extend_args) : op := extend_node src a.
Definition b_project_parsed (src : op) (a : project_args) : op := OProject src (pa_parsed_ops a) (pa_group_by a).
Definition b_select_rows_parsed (src : op) (a : select_rows_args) : op := OSelectRows src (sr_parsed_expr a).
Definition b_select_columns (src : op) (a : select_columns_args) : op := OSelectCols src (sc_columns a).
Definition b_drop_columns (src : op) (a : drop_columns_args) : op := ODropCols src (dc_column_deletions a).
Definition b_order_rows (src : op) (a : order_rows_args) : op := OOrder src (oa_columns a) (oa_reverse a) (oa_limit a).
(* MapColumnsNode.__init__: column_remapping = the entries with a target, column_deletions = the keys mapped to None
   (Sem.OMapCols keeps the remapping as NEW -> OLD pairs) *)
Definition b_map_columns (src : op) (a : map_columns_args) : op :=
  OMapCols src
           (flat_map (fun kv => match snd kv with Some n => [(n, fst kv)] | None => [] end) (mc_column_remapping a))
           (flat_map (fun kv => match snd kv with Some _ => [] | None => [fst kv] end) (mc_column_remapping a)).
Definition b_rename_columns (src : op) (a : rename_columns_args) : op := ORename src (rc_column_remapping a).
(* natural_join: on_a, on_b = _convert_on_clause_to_parallel_lists(on) *)
Definition b_natural_join (src : op) (a : natural_join_args) : op :=
  OJoin src (nj_b a) (map fst (nj_on a)) (map snd (nj_on a)) (nj_jointype a).
Definition b_concat_rows (src : op) (a : concat_rows_args) : op :=
  OConcat src (cr_b a) (cr_id_column a) (cr_a_name a) (cr_b_name a).

(* ------------------------------------------------------------------ what each replace_leaves forwards *)
(* one entry per node class: from the node's stored fields to the arguments of the builder call.  The two binary
   nodes also choose which rebuilt source receives the call (new_sources[0]) and which is passed as `b`. *)
Record forwarding := mk_forwarding {
  fw_extend : list (string * expr) -> bool -> window -> extend_args;          (* self.ops, self.windowed_situation, self.partition_by/order_by/reverse *)
  fw_project : list (string * expr) -> list string -> project_args;           (* self.ops, self.group_by *)
  fw_select_rows : expr -> select_rows_args;                                  (* self.ops = {"expr": e} *)
  fw_select_columns : list string -> select_columns_args;                     (* self.column_selection *)
  fw_drop_columns : list string -> drop_columns_args;                         (* self.column_deletions *)
  fw_order_rows : list string -> list string -> option nat -> order_rows_args;(* self.order_columns, self.reverse, self.limit *)
  fw_map_columns : list (string * string) -> list string -> map_columns_args; (* self.column_remapping (as NEW->OLD pairs), self.column_deletions *)
  fw_rename_columns : list (string * string) -> rename_columns_args;          (* self.column_remapping *)
  fw_natural_join : op -> op -> list string -> list string -> jointype -> op * natural_join_args;   (* new_sources[0], new_sources[1], on_a, on_b, jointype *)
  fw_concat_rows : op -> op -> option string -> string -> string -> op * concat_rows_args           (* new_sources[0], new_sources[1], id_column, a_name, b_name *)
}.

(* the code (since the fixes bd1e9c5 select_rows keyword, 4c01664 map_columns deletions, bd78577 partition_by=1):
     ExtendNode:        extend_parsed_(parsed_ops=self.ops, partition_by=<1 if windowed_situation and not partition_by else self.partition_by>,
                                       order_by=self.order_by, reverse=self.reverse)
     ProjectNode:       project_parsed_(parsed_ops=self.ops, group_by=self.group_by)
     SelectRowsNode:    select_rows_parsed_(parsed_expr=self.ops)
     SelectColumnsNode: select_columns(columns=self.column_selection)
     DropColumnsNode:   drop_columns(column_deletions=self.column_deletions)
     OrderRowsNode:     order_rows(columns=self.order_columns, reverse=self.reverse, limit=self.limit)
     MapColumnsNode:    map_columns(column_remapping={**self.column_remapping, **{k: None for k in self.column_deletions}})
     RenameColumnsNode: rename_columns(column_remapping=self.column_remapping)
     NaturalJoinNode:   new_sources[0].natural_join(b=new_sources[1], on=list(zip(self.on_a, self.on_b)), jointype=self.jointype)
     ConcatRowsNode:    new_sources[0].concat_rows(b=new_sources[1], id_column=self.id_column, a_name=self.a_name, b_name=self.b_name) *)
Definition fw_code : forwarding := {|
  fw_extend := fun ops wd w =>
    mk_extend_args ops (if wd && negb (nonempty (w_part w)) then PartOne else PartCols (w_part w)) (w_order w) (w_rev w);
  fw_project := fun ops gb => mk_project_args ops gb;
  fw_select_rows := fun e => mk_select_rows_args e;
  fw_select_columns := fun cs => mk_select_columns_args cs;
  fw_drop_columns := fun ds => mk_drop_columns_args ds;
  fw_order_rows := fun cs rev lim => mk_order_rows_args cs rev lim;
  fw_map_columns := fun m dels =>
    mk_map_columns_args (map (fun no => (snd no, Some (fst no))) m ++ map (fun d => (d, None)) dels);
  fw_rename_columns := fun m => mk_rename_columns_args m;
  fw_natural_join := fun s0 s1 on_a on_b jt => (s0, mk_natural_join_args s1 (combine on_a on_b) jt);
  fw_concat_rows := fun s0 s1 idc an bn => (s0, mk_concat_rows_args s1 idc an bn)
|}.

(* the forwarding of the tree before the C07 fixes (witness of the _refuted theorems only):
     ExtendNode forwarded partition_by=self.partition_by, i.e. [] for a node built with partition_by=1;
     MapColumnsNode forwarded only self.column_remapping.
   (The third defect, SelectRowsNode passing the unknown keyword parsed_ops=, is a TypeError on every call and
   has no tree to show; the harness ties keyword names to the builder signatures.) *)
Definition fw_before_fixes : forwarding := {|
  fw_extend := fun ops wd w => mk_extend_args ops (PartCols (w_part w)) (w_order w) (w_rev w);
  fw_project := fw_project fw_code;
  fw_select_rows := fw_select_rows fw_code;
  fw_select_columns := fw_select_columns fw_code;
  fw_drop_columns := fw_drop_columns fw_code;
  fw_order_rows := fw_order_rows fw_code;
  fw_map_columns := fun m dels => mk_map_columns_args (map (fun no => (snd no, Some (fst no))) m);
  fw_rename_columns := fw_rename_columns fw_code;
  fw_natural_join := fw_natural_join fw_code;
  fw_concat_rows := fw_concat_rows fw_code
|}.

(* ------------------------------------------------------------------ replace_leaves *)
(* replacement_map: table key -> operator DAG (a Python dict; lookup = first binding) *)
Definition rmap := list (string * op).

Fixpoint replace_leaves_with (fw : forwarding) (m : rmap) (p : op) : op :=
  let rl := replace_leaves_with fw m in
  match p with
  | OTable n cs => match dict_get m n with Some r => r | None => OTable n cs end   (* try: return replacement_map[self.key]; else a copy *)
  | OExtend s ops wd w => b_extend_parsed (rl s) (fw_extend fw ops wd w)
  | OProject s ops gb => b_project_parsed (rl s) (fw_project fw ops gb)
  | OSelectRows s e => b_select_rows_parsed (rl s) (fw_select_rows fw e)
  | OSelectCols s cs => b_select_columns (rl s) (fw_select_columns fw cs)
  | ODropCols s ds => b_drop_columns (rl s) (fw_drop_columns fw ds)
  | ORename s mp => b_rename_columns (rl s) (fw_rename_columns fw mp)
  | OMapCols s mp dels => b_map_columns (rl s) (fw_map_columns fw mp dels)
  | OOrder s cs rev lim => b_order_rows (rl s) (fw_order_rows fw cs rev lim)
  | OJoin a b on_a on_b jt => let '(recv, args) := fw_natural_join fw (rl a) (rl b) on_a on_b jt in b_natural_join recv args
  | OConcat a b idc an bn => let '(recv, args) := fw_concat_rows fw (rl a) (rl b) idc an bn in b_concat_rows recv args
  end.

Definition replace_leaves : rmap -> op -> op := replace_leaves_with fw_code.

(* composition at a named leaf: every leaf of b named k becomes a *)
Definition compose_at (k : string) (a b : op) : op := replace_leaves [(k, a)] b.

(* ------------------------------------------------------------------ invariants of nodes made by the constructors *)
(* ExtendNode.__init__ sets windowed_situation whenever the operators, the partition or the order ask for a window
   (it may also be set by partition_by=1 alone); NaturalJoinNode.__init__ asserts len(on_a) == len(on_b) *)
Fixpoint built_ok (p : op) : bool :=
  match p with
  | OTable _ _ => true
  | OExtend s ops wd w => built_ok s && implb (implies_windowed ops || nonempty (w_part w) || nonempty (w_order w)) wd
  | OProject s _ _ | OSelectRows s _ | OSelectCols s _ | ODropCols s _ | ORename s _ | OMapCols s _ _ | OOrder s _ _ _ => built_ok s
  | OJoin a b on_a on_b _ => built_ok a && built_ok b && Nat.eqb (List.length on_a) (List.length on_b)
  | OConcat a b _ _ _ => built_ok a && built_ok b
  end.

Fixpoint nodupb (l : list string) : bool := match l with [] => true | x :: t => negb (mem x t) && nodupb t end.

(* the boundary condition: a replaced leaf declares exactly the columns its replacement produces, in the same order
   (ViewRepresentation.__init__ asserts that column names are unique) *)
Fixpoint boundary_ok (m : rmap) (p : op) : bool :=
  match p with
  | OTable n cs => match dict_get m n with Some r => eqb (column_names r) cs && nodupb cs | None => true end
  | OExtend s _ _ _ | OProject s _ _ | OSelectRows s _ | OSelectCols s _ | ODropCols s _ | ORename s _ | OMapCols s _ _ | OOrder s _ _ _ => boundary_ok m s
  | OJoin a b _ _ _ | OConcat a b _ _ _ => boundary_ok m a && boundary_ok m b
  end.
(* the weaker condition that act_on / DataOpArrow.act_on test: the replacement produces the leaf's column SET *)
Fixpoint boundary_sets_ok (m : rmap) (p : op) : bool :=
  match p with
  | OTable n cs => match dict_get m n with Some r => set_eqb (column_names r) cs | None => true end
  | OExtend s _ _ _ | OProject s _ _ | OSelectRows s _ | OSelectCols s _ | ODropCols s _ | ORename s _ | OMapCols s _ _ | OOrder s _ _ _ => boundary_sets_ok m s
  | OJoin a b _ _ _ | OConcat a b _ _ _ => boundary_sets_ok m a && boundary_sets_ok m b
  end.

(* no rename_columns / map_columns step gives two of its input columns the same name: the renamed column list is
   duplicate-free (RenameColumnsNode / MapColumnsNode hand it to ViewRepresentation.__init__, which asserts that) *)
Fixpoint renames_okb (p : op) : bool :=
  match p with
  | OTable _ _ => true
  | ORename s m | OMapCols s m _ => renames_okb s && nodupb (map (rename_col m) (column_names s))
  | OExtend s _ _ _ | OProject s _ _ | OSelectRows s _ | OSelectCols s _ | ODropCols s _ | OOrder s _ _ _ => renames_okb s
  | OJoin a b _ _ _ | OConcat a b _ _ _ => renames_okb a && renames_okb b
  end.

(* ------------------------------------------------------------------ environments *)
Definition env_set (e : env) (k : string) (o : option table) : env :=
  match o with Some t => (k, t) :: e | None => dict_pop e k end.
(* the tables b sees after composition: key k is bound to the result of m[k] (unbound when that is undefined) *)
Definition override (fl : flavor) (e : env) (m : rmap) : env :=
  fold_right (fun kr acc => env_set acc (fst kr) (sem_gen fl (snd kr) e)) e m.

(* ------------------------------------------------------------------ get_tables *)
Fixpoint leaves (p : op) : list (string * list string) :=
  match p with
  | OTable n cs => [(n, cs)]
  | OExtend s _ _ _ | OProject s _ _ | OSelectRows s _ | OSelectCols s _ | ODropCols s _ | ORename s _ | OMapCols s _ _ | OOrder s _ _ _ => leaves s
  | OJoin a b _ _ _ | OConcat a b _ _ _ => leaves a ++ leaves b
  end.
(* same_table_description_ on what Sem.OTable carries: the key and the column tuple *)
Definition tables_consistent (ts : list (string * list string)) : bool :=
  forallb (fun t => forallb (fun t' => implb (eqb (fst t) (fst t')) (eqb (snd t) (snd t'))) ts) ts.
(* None = ValueError("Table ... has two incompatible representations") *)
Definition get_tables (p : op) : option (list (string * list string)) :=
  if tables_consistent (leaves p) then Some (leaves p) else None.
Definition table_keys (ts : list (string * list string)) : list string := py_set (map fst ts).

(* ------------------------------------------------------------------ ViewRepresentation.act_on(b) for an operator b;  a >> b *)
Definition op_key (p : op) : option string := match p with OTable n _ => Some n | _ => None end.   (* .key is None on non-table nodes *)
Definition act_on (self b : op) : option op :=
  match get_tables self with
  | None => None
  | Some ts =>
      match (match table_keys ts with [k] => Some k | _ => op_key b end) with
      | None => None                                             (* assert isinstance(key, str) *)
      | Some key =>
          match dict_get ts key with
          | None => None                                         (* tables[key]: KeyError *)
          | Some old => if set_eqb (column_names b) old          (* assert set(b.column_names) == set(old.column_names) *)
                        then Some (replace_leaves [(key, b)] self) else None
          end
      end
  end.
(* ShiftPipeAction.__rshift__: a >> b = b.act_on(a) *)
Definition rshift (a b : op) : option op := act_on b a.
Definition obind {A B} (o : option A) (f : A -> option B) : option B := match o with Some x => f x | None => None end.

(* ------------------------------------------------------------------ arrows *)
(* list.sort() on column names: Python compares code points, which is the byte order of the UTF-8 strings used here *)
Definition sort_strings (l : list string) : list string := stable_sort String.leb l.

Record arrow := mk_arrow { a_pipeline : op; a_free : string; a_incoming : list string; a_outgoing : list string }.

(* DataOpArrow.__init__(pipeline, free_table_key=None) *)
Definition data_op_arrow (p : op) (free : option string) : option arrow :=
  match get_tables p with
  | None => None
  | Some ts =>
      let keys := table_keys ts in
      match (match free with
             | None => match keys with [k] => Some k | _ => None end      (* "pipeline must use exactly one table" *)
             | Some k => if mem k keys then Some k else None              (* "free_table_key must be a table key used in the pipeline" *)
             end) with
      | None => None
      | Some k => match dict_get ts k with
                  | Some cs => Some (mk_arrow p k cs (sort_strings (column_names p)))
                  | None => None
                  end
      end
  end.

(* DataOpArrow.act_on(b) for an arrow b:  b >> self *)
Definition arrow_act_on (self b : arrow) : option arrow :=
  if nonempty (set_diff (a_incoming self) (a_outgoing b)) then None              (* "missing required columns" *)
  else if nonempty (set_diff (a_outgoing b) (a_incoming self)) then None         (* "extra incoming columns" *)
  else
    let np := replace_leaves [(a_free self, a_pipeline b)] (a_pipeline self) in
    match get_tables np with                                                     (* new_pipeline.get_tables()  # check tables are compatible *)
    | None => None
    | Some _ => data_op_arrow np (Some (a_free b))
    end.
Definition arrow_rshift (a b : arrow) : option arrow := arrow_act_on b a.        (* a >> b *)
Definition dom (a : arrow) : list string := a_incoming a.
Definition cod (a : arrow) : list string := a_outgoing a.

(* DataOpArrow.act_on(frame) = transform: the frame must carry exactly the incoming column set
   (missing -> ValueError, excess -> AssertionError), then pipeline.act_on(frame) evaluates strictly *)
Definition arrow_transform (fl : flavor) (a : arrow) (t : table) : option table :=
  if set_eqb (cols t) (a_incoming a) then sem_gen fl (a_pipeline a) [(a_free a, t)] else None.

(* ------------------------------------------------------------------ decidable equality of trees (for the case files) *)
Fixpoint expr_eqb (x y : expr) : bool :=
  match x, y with
  | ECol a, ECol b => eqb a b
  | EConst a, EConst b => eqb a b
  | EOp o1 l1, EOp o2 l2 =>
      eqb o1 o2 && (fix go (l1 l2 : list expr) : bool :=
                      match l1, l2 with [], [] => true | a :: t, b :: u => expr_eqb a b && go t u | _, _ => false end) l1 l2
  | _, _ => false
  end.
Fixpoint ops_eqb (a b : list (string * expr)) : bool :=
  match a, b with
  | [], [] => true
  | (k1, e1) :: t, (k2, e2) :: u => eqb k1 k2 && expr_eqb e1 e2 && ops_eqb t u
  | _, _ => false
  end.
Definition window_eqb (a b : window) : bool :=
  eqb (w_part a) (w_part b) && eqb (w_order a) (w_order b) && eqb (w_rev a) (w_rev b).
Definition jointype_eqb (a b : jointype) : bool :=
  match a, b with JInner, JInner | JLeft, JLeft | JRight, JRight | JFull, JFull => true | _, _ => false end.
Fixpoint op_eqb (x y : op) : bool :=
  match x, y with
  | OTable n1 c1, OTable n2 c2 => eqb n1 n2 && eqb c1 c2
  | OExtend s1 o1 wd1 w1, OExtend s2 o2 wd2 w2 => op_eqb s1 s2 && ops_eqb o1 o2 && Bool.eqb wd1 wd2 && window_eqb w1 w2
  | OProject s1 o1 g1, OProject s2 o2 g2 => op_eqb s1 s2 && ops_eqb o1 o2 && eqb g1 g2
  | OSelectRows s1 e1, OSelectRows s2 e2 => op_eqb s1 s2 && expr_eqb e1 e2
  | OSelectCols s1 c1, OSelectCols s2 c2 => op_eqb s1 s2 && eqb c1 c2
  | ODropCols s1 c1, ODropCols s2 c2 => op_eqb s1 s2 && eqb c1 c2
  | ORename s1 m1, ORename s2 m2 => op_eqb s1 s2 && eqb m1 m2
  | OMapCols s1 m1 d1, OMapCols s2 m2 d2 => op_eqb s1 s2 && eqb m1 m2 && eqb d1 d2
  | OOrder s1 c1 r1 l1, OOrder s2 c2 r2 l2 => op_eqb s1 s2 && eqb c1 c2 && eqb r1 r2 && eqb l1 l2
  | OJoin a1 b1 x1 y1 j1, OJoin a2 b2 x2 y2 j2 => op_eqb a1 a2 && op_eqb b1 b2 && eqb x1 x2 && eqb y1 y2 && jointype_eqb j1 j2
  | OConcat a1 b1 i1 n1 m1, OConcat a2 b2 i2 n2 m2 => op_eqb a1 a2 && op_eqb b1 b2 && eqb i1 i2 && eqb n1 n2 && eqb m1 m2
  | _, _ => false
  end.
