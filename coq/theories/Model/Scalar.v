(* C05 -- scalar values and the DOCUMENTED meaning of every catalogued method.

   `spec_method` is written ONLY from the Term.* docstrings of data_algebra/expr_rep.py (quoted beside each
   definition) and, for the Python operators that have no docstring, from the meaning of the Python operator on
   numbers.  `None` means "outside the documented domain" (the property does not constrain the value there);
   the harness never feeds such argument tuples and the theorems quantify over the tuples with `Some`.

   Values.  SNull is a missing cell (None / NaN of a float64 Pandas column / SQL NULL / Polars null).  SNaN is a
   float NaN that is DISTINGUISHABLE from a missing cell (only a Polars column, or a computed IEEE result, can hold
   it).  Results are compared with `sv_eqv`, which identifies SNull with SNaN ("null and NaN are treated alike"),
   booleans with 0/1 (SQLite returns 1 where Pandas returns True) and rationals by Qeq.
   Transcendental functions are the uninterpreted symbols mf / mf2 shared by specification and backends. *)
From Coq Require Import List Bool ZArith QArith Qround Qabs String Ascii.
Import ListNotations.

Inductive sval := SNull | SNaN | SBool (b : bool) | SNum (q : Q) | SPInf | SNInf | SStr (s : string).

(* ------------------------------------------------------------------ extended reals with IEEE NaN *)
Inductive xnum := XNaN | XFin (q : Q) | XPInf | XNInf.

Definition Qlt_bool (a b : Q) : bool := negb (Qle_bool b a).
Definition Qis_int (q : Q) : bool := Qeq_bool q (inject_Z (Qfloor q)).
Definition Qsgn (q : Q) : Q := match (q ?= 0)%Q with Eq => 0%Q | Lt => (-1)%Q | Gt => 1%Q end.

Definition xneg (x : xnum) : xnum :=
  match x with XNaN => XNaN | XFin q => XFin (- q)%Q | XPInf => XNInf | XNInf => XPInf end.
Definition xadd (a b : xnum) : xnum :=
  match a, b with
  | XNaN, _ | _, XNaN => XNaN
  | XFin p, XFin q => XFin (p + q)%Q
  | XPInf, XNInf | XNInf, XPInf => XNaN
  | XPInf, _ | _, XPInf => XPInf
  | XNInf, _ | _, XNInf => XNInf
  end.
Definition xsub (a b : xnum) : xnum := xadd a (xneg b).
Definition xscale_inf (p : Q) (i : xnum) : xnum :=      (* finite p times an infinity i *)
  match (p ?= 0)%Q with Eq => XNaN | Gt => i | Lt => xneg i end.
Definition xmul (a b : xnum) : xnum :=
  match a, b with
  | XNaN, _ | _, XNaN => XNaN
  | XFin p, XFin q => XFin (p * q)%Q
  | XFin p, i => xscale_inf p i
  | i, XFin p => xscale_inf p i
  | XPInf, XPInf | XNInf, XNInf => XPInf
  | _, _ => XNInf
  end.
Definition xabs (x : xnum) : xnum :=
  match x with XNaN => XNaN | XFin q => XFin (Qabs q) | _ => XPInf end.
(* order on non-NaN extended reals; every comparison with NaN is false *)
Definition xle (a b : xnum) : bool :=
  match a, b with
  | XNaN, _ | _, XNaN => false
  | XNInf, _ => true
  | _, XPInf => true
  | XFin p, XFin q => Qle_bool p q
  | _, _ => false
  end.
Definition xeqb (a b : xnum) : bool := xle a b && xle b a.
Definition xltb (a b : xnum) : bool := xle a b && negb (xle b a).
Definition xcompare (a b : xnum) : comparison :=
  if xle a b then (if xle b a then Eq else Lt) else Gt.
Definition xmax (a b : xnum) : xnum := if xle b a then a else b.
Definition xmin (a b : xnum) : xnum := if xle a b then a else b.

(* ------------------------------------------------------------------ classification of scalar values *)
Definition missing (v : sval) : bool := match v with SNull | SNaN => true | _ => false end.
Definition as_x (v : sval) : option xnum :=
  match v with SNum q => Some (XFin q) | SPInf => Some XPInf | SNInf => Some XNInf | _ => None end.
Definition of_x (x : xnum) : sval :=
  match x with XNaN => SNaN | XFin q => SNum q | XPInf => SPInf | XNInf => SNInf end.
Definition numeric (v : sval) : bool := match as_x v with Some _ => true | None => false end.
Definition numish (v : sval) : bool := missing v || numeric v.
Definition strish (v : sval) : bool := match v with SNull | SStr _ => true | _ => false end.

(* canonical view used to compare results *)
Inductive cval := CMiss | CFin (q : Q) | CPInf | CNInf | CStr (s : string).
Definition canon (v : sval) : cval :=
  match v with
  | SNull | SNaN => CMiss
  | SBool true => CFin 1 | SBool false => CFin 0
  | SNum q => CFin q | SPInf => CPInf | SNInf => CNInf | SStr s => CStr s
  end.
Definition cv_eqb (a b : cval) : bool :=
  match a, b with
  | CMiss, CMiss | CPInf, CPInf | CNInf, CNInf => true
  | CFin p, CFin q => Qeq_bool p q
  | CStr s, CStr t => String.eqb s t
  | _, _ => false
  end.
Definition sv_eqvb (a b : sval) : bool := cv_eqb (canon a) (canon b).
Definition sv_eqv (a b : sval) : Prop := sv_eqvb a b = true.
Definition osv_eqvb (a b : option sval) : bool :=
  match a, b with Some x, Some y => sv_eqvb x y | None, None => true | _, _ => false end.

(* three-way comparison of two non-missing values of the same kind (numbers incl. +-inf, strings, booleans) *)
Definition bool_compare (a b : bool) : comparison :=
  match a, b with false, true => Lt | true, false => Gt | _, _ => Eq end.
Definition cmp3 (a b : sval) : option comparison :=
  match a, b with
  | SStr s, SStr t => Some (String.compare s t)
  | SBool x, SBool y => Some (bool_compare x y)
  | _, _ => match as_x a, as_x b with Some x, Some y => Some (xcompare x y) | _, _ => None end
  end.
Definition is_Eq c := match c with Eq => true | _ => false end.
Definition is_Lt c := match c with Lt => true | _ => false end.
Definition is_Gt c := match c with Gt => true | _ => false end.

(* ------------------------------------------------------------------ helpers on rationals *)
Definition qfloor (q : Q) : Q := inject_Z (Qfloor q).
Definition qceil (q : Q) : Q := inject_Z (Qceiling q).
Definition qtie (q : Q) : bool := Qeq_bool (q - qfloor q)%Q (1 # 2).             (* exactly half way *)
Definition qround_nearest (q : Q) : Q := qfloor (q + (1 # 2))%Q.                  (* correct when not a tie *)
Definition pow10 (d : Z) : Q := Qpower 10 d.
Definition qmodZ (p q : Q) : Q := inject_Z (Z.modulo (Qfloor p) (Qfloor q)).
Fixpoint substring_from (n : nat) (s : string) : string :=
  match n, s with O, _ => s | S k, String _ t => substring_from k t | S _, EmptyString => EmptyString end.
Fixpoint prefix_n (n : nat) (s : string) : string :=
  match n, s with O, _ => EmptyString | S k, String c t => String c (prefix_n k t) | S _, EmptyString => EmptyString end.
Definition str_slice (start stop : nat) (s : string) : string := prefix_n (stop - start) (substring_from start s).
Definition Qnat (q : Q) : option nat :=                  (* a non-negative integer-valued rational *)
  if Qis_int q && Qle_bool 0 q then Some (Z.to_nat (Qfloor q)) else None.

Section Spec.
  Variable mf : string -> Q -> option Q.          (* sin, exp, log ... : one shared uninterpreted symbol table *)
  Variable mf2 : string -> Q -> Q -> option Q.    (* pow (non-integer exponent), arctan2 *)

  (* x ** y: exact for integer exponents, the shared symbol "pow" otherwise (positive base) *)
  Definition qpow (p q : Q) : option Q :=
    if Qis_int q && (negb (Qeq_bool p 0) || Qle_bool 0 q) then Some (Qpower p (Qfloor q))
    else if Qlt_bool 0 p then mf2 "pow" p q else None.

  (* argument combinators: a missing numeric argument gives a missing result *)
  Definition lift1 (f : xnum -> option sval) (a : sval) : option sval :=
    if missing a then Some SNull else match as_x a with Some x => f x | None => None end.
  Definition lift2 (f : xnum -> xnum -> option sval) (a b : sval) : option sval :=
    if negb (numish a && numish b) then None
    else if missing a || missing b then Some SNull
    else match as_x a, as_x b with Some x, Some y => f x y | _, _ => None end.
  Definition fin1 (f : Q -> option sval) (x : xnum) : option sval := match x with XFin q => f q | _ => None end.
  Definition fin2 (f : Q -> Q -> option sval) (x y : xnum) : option sval :=
    match x, y with XFin p, XFin q => f p q | _, _ => None end.

  (* ---- operators (no docstring: Python operator meaning; nulls propagate) ---- *)
  Definition spec_add (l : list sval) := match l with [a; b] => lift2 (fun x y => Some (of_x (xadd x y))) a b | _ => None end.
  Definition spec_sub (l : list sval) :=
    match l with
    | [a] => lift1 (fun x => Some (of_x (xneg x))) a                                  (* unary minus *)
    | [a; b] => lift2 (fun x y => Some (of_x (xsub x y))) a b
    | _ => None end.
  Definition spec_mul (l : list sval) := match l with [a; b] => lift2 (fun x y => Some (of_x (xmul x y))) a b | _ => None end.
  (* true division; divisor zero and infinite operands are outside the documented domain *)
  Definition spec_div (l : list sval) :=
    match l with [a; b] => lift2 (fin2 (fun p q => if Qeq_bool q 0 then None else Some (SNum (p / q)%Q))) a b | _ => None end.
  Definition spec_floordiv (l : list sval) :=
    match l with [a; b] => lift2 (fin2 (fun p q => if Qeq_bool q 0 then None else Some (SNum (qfloor (p / q)%Q)))) a b | _ => None end.
  (* "Return modulo of items" / "Return remainder of items": sign conventions are the destination's, so the
     documented domain is a non-negative integer dividend and a positive integer divisor *)
  Definition spec_mod (l : list sval) :=
    match l with
    | [a; b] => lift2 (fin2 (fun p q => if Qis_int p && Qis_int q && Qle_bool 0 p && Qlt_bool 0 q
                                         then Some (SNum (qmodZ p q)) else None)) a b
    | _ => None end.
  (* IEEE pow gives pow(x, 0) = 1 and pow(1, y) = 1 even for a NaN operand; what a missing operand does in these two
     corners is not documented, so they are outside the domain *)
  Definition spec_pow (l : list sval) :=
    match l with
    | [a; b] =>
        if (missing a && match b with SNum q => Qeq_bool q 0 | _ => false end)
           || (missing b && match a with SNum p => Qeq_bool p 1 | _ => false end) then None
        else lift2 (fin2 (fun p q => option_map SNum (qpow p q))) a b
    | _ => None end.

  (* comparisons: both operands present and of one kind; a missing operand is not documented *)
  Definition spec_cmp (test : comparison -> bool) (l : list sval) : option sval :=
    match l with [a; b] => option_map (fun c => SBool (test c)) (cmp3 a b) | _ => None end.
  Definition spec_and (l : list sval) := match l with [SBool a; SBool b] => Some (SBool (a && b)) | _ => None end.
  Definition spec_or (l : list sval) := match l with [SBool a; SBool b] => Some (SBool (a || b)) | _ => None end.
  (* `not a` is catalogued as the expression a == False *)
  Definition spec_not (l : list sval) := match l with [SBool a] => Some (SBool (negb a)) | _ => None end.

  (* ---- Term.* methods ---- *)
  (* "Return absolute value of items" *)
  Definition spec_abs (l : list sval) := match l with [a] => lift1 (fun x => Some (of_x (xabs x))) a | _ => None end.
  (* "Return -1, 0, 1 as sign of item" *)
  Definition spec_sign (l : list sval) :=
    match l with
    | [a] => lift1 (fun x => match x with XFin q => Some (SNum (Qsgn q)) | XPInf => Some (SNum 1) | XNInf => Some (SNum (-1)) | XNaN => None end) a
    | _ => None end.
  (* "Return floor() (largest int no larger than, as real type) of item" *)
  Definition spec_floor (l : list sval) := match l with [a] => lift1 (fin1 (fun q => Some (SNum (qfloor q)))) a | _ => None end.
  (* "Return ceil() (smallest int no smaller than, as real type) of item" *)
  Definition spec_ceil (l : list sval) := match l with [a] => lift1 (fin1 (fun q => Some (SNum (qceil q)))) a | _ => None end.
  (* "Return rounded values (nearest integer, subject to some rules) as real": exact ties are the "some rules" *)
  Definition spec_round (l : list sval) :=
    match l with [a] => lift1 (fin1 (fun q => if qtie q then None else Some (SNum (qround_nearest q)))) a | _ => None end.
  (* "Return rounded values (given numer of decimals) as real"; the digits argument is a literal 0..6 *)
  Definition spec_around (l : list sval) :=
    match l with
    | [a; SNum d] =>
        match Qnat d with
        | Some n => if (n <=? 6)%nat then
            lift1 (fin1 (fun q => let s := pow10 (Z.of_nat n) in
                                  if qtie (q * s)%Q then None else Some (SNum (qround_nearest (q * s)%Q / s)%Q))) a
            else None
        | None => None end
    | _ => None end.
  (* "Return per row maximum of items and other (propogate missing)" *)
  Definition spec_maximum (l : list sval) := match l with [a; b] => lift2 (fun x y => Some (of_x (xmax x y))) a b | _ => None end.
  Definition spec_minimum (l : list sval) := match l with [a; b] => lift2 (fun x y => Some (of_x (xmin x y))) a b | _ => None end.
  (* "Return per row fmax of items and other (ignore missing)" *)
  Definition ignore_missing2 (f : xnum -> xnum -> xnum) (a b : sval) : option sval :=
    if negb (numish a && numish b) then None
    else if missing a then (if missing b then Some SNull else Some b)
    else if missing b then Some a
    else match as_x a, as_x b with Some x, Some y => Some (of_x (f x y)) | _, _ => None end.
  Definition spec_fmax (l : list sval) := match l with [a; b] => ignore_missing2 xmax a b | _ => None end.
  Definition spec_fmin (l : list sval) := match l with [a; b] => ignore_missing2 xmin a b | _ => None end.
  (* "if_else(True, 1, 2) > 1, if_else(False, 1, 2) -> 2. None propagating behavior if_else(None, 1, 2) -> None" *)
  Definition spec_if_else (l : list sval) :=
    match l with
    | [SBool true; x; _] => Some x
    | [SBool false; _; y] => Some y
    | [SNull; _; _] => Some SNull          (* a boolean column cannot hold a distinguishable NaN *)
    | _ => None end.
  (* "numpy.where behavior: where(None, 1, 2) -> 2" *)
  Definition spec_where (l : list sval) :=
    match l with
    | [SBool true; x; _] => Some x
    | [SBool false; _; y] | [SNull; _; y] => Some y
    | _ => None end.
  (* "Replace missing values with alternative"; whether a distinguishable NaN counts as missing is not documented *)
  Definition spec_coalesce (l : list sval) :=
    match l with [SNull; y] => Some y | [SNaN; _] => None | [x; _] => Some x | _ => None end.
  (* "Return which items are null" *)
  Definition spec_is_null (l : list sval) :=
    match l with [SNull] => Some (SBool true) | [SNaN] => None | [_] => Some (SBool false) | _ => None end.
  (* "Return which items are nan"; what a missing cell answers is not documented (Pandas cannot tell them apart) *)
  Definition spec_is_nan (l : list sval) :=
    match l with [SNaN] => Some (SBool true) | [SNull] => None | [a] => if numeric a then Some (SBool false) else None | _ => None end.
  (* "Return which items are inf" *)
  Definition spec_is_inf (l : list sval) :=
    match l with
    | [SPInf] | [SNInf] => Some (SBool true)
    | [a] => if numish a then Some (SBool false) else None
    | _ => None end.
  (* "Return which items in a numeric column are bad (null, None, nan, or infinite)" *)
  Definition spec_is_bad (l : list sval) :=
    match l with
    | [SNum _] => Some (SBool false)
    | [a] => if numish a then Some (SBool true) else None
    | _ => None end.
  (* "Set membership": args = x :: elements; x and the elements present and of one kind *)
  Fixpoint mem_cmp (x : sval) (l : list sval) : option bool :=
    match l with
    | [] => Some false
    | e :: t => match cmp3 x e, mem_cmp x t with Some c, Some r => Some (is_Eq c || r) | _, _ => None end
    end.
  Definition spec_is_in (l : list sval) :=
    match l with x :: elems => if missing x then None else option_map SBool (mem_cmp x elems) | _ => None end.
  (* "Map values to values": args = x :: default :: k1 :: v1 :: k2 :: v2 ...; unmatched or missing x -> default *)
  Fixpoint map_lookup (x : sval) (kv : list sval) (dflt : sval) : option sval :=
    match kv with
    | [] => Some dflt
    | k :: v :: t => match cmp3 x k with Some c => if is_Eq c then Some v else map_lookup x t dflt | None => None end
    | [_] => None
    end.
  Definition spec_mapv (l : list sval) :=
    match l with
    | x :: dflt :: kv => if negb (Nat.even (List.length kv)) then None           (* keys and values come in pairs *)
                         else if missing x then Some dflt else map_lookup x kv dflt
    | _ => None end.
  (* "Concatinate strings" *)
  Definition spec_concat (l : list sval) := match l with [SStr a; SStr b] => Some (SStr (a ++ b)) | _ => None end.
  (* "Trim string start (inclusive) to stop (exclusive)" *)
  Definition spec_trimstr (l : list sval) :=
    match l with
    | [s; SNum a; SNum b] =>
        match Qnat a, Qnat b with
        | Some i, Some j => if (i <=? j)%nat then
                              match s with SStr t => Some (SStr (str_slice i j t)) | SNull => Some SNull | _ => None end
                            else None
        | _, _ => None end
    | _ => None end.
  (* "Cast as int": documented for integer-valued numbers only *)
  Definition spec_as_int64 (l : list sval) := match l with [SNum q] => if Qis_int q then Some (SNum q) else None | _ => None end.
  (* "Cast as string": documented here for strings only (number formatting is the destination's) *)
  Definition spec_as_str (l : list sval) := match l with [SStr s] => Some (SStr s) | [SNull] => Some SNull | _ => None end.

  (* transcendental functions: shared symbol on the mathematical domain *)
  Definition math_dom (name : string) (q : Q) : bool :=
    if String.eqb name "sqrt" then Qle_bool 0 q
    else if String.eqb name "log" || String.eqb name "log10" then Qlt_bool 0 q
    else if String.eqb name "log1p" then Qlt_bool (-1) q
    else if String.eqb name "arccos" || String.eqb name "arcsin" then Qle_bool (-1) q && Qle_bool q 1
    else if String.eqb name "arccosh" then Qle_bool 1 q
    else if String.eqb name "arctanh" then Qlt_bool (-1) q && Qlt_bool q 1
    else true.
  Definition spec_math (name : string) (l : list sval) :=
    match l with
    | [a] => lift1 (fin1 (fun q => if math_dom name q then option_map SNum (mf name q) else None)) a
    | _ => None end.
  Definition spec_arctan2 (l : list sval) :=
    match l with [a; b] => lift2 (fin2 (fun p q => option_map SNum (mf2 "arctan2" p q))) a b | _ => None end.

  Definition math_names : list string :=
    ["arccos"; "arccosh"; "arcsin"; "arcsinh"; "arctan"; "arctanh"; "cos"; "cosh"; "exp"; "expm1"; "log"; "log10";
     "log1p"; "sin"; "sinh"; "sqrt"; "tanh"]%string.

  Definition spec_table : list (string * (list sval -> option sval)) :=
    [("+", spec_add); ("-", spec_sub); ("*", spec_mul); ("/", spec_div); ("%/%", spec_div); ("//", spec_floordiv);
     ("%", spec_mod); ("mod", spec_mod); ("remainder", spec_mod); ("**", spec_pow);
     ("==", spec_cmp is_Eq); ("!=", spec_cmp (fun c => negb (is_Eq c))); ("<", spec_cmp is_Lt);
     ("<=", spec_cmp (fun c => negb (is_Gt c))); (">", spec_cmp is_Gt); (">=", spec_cmp (fun c => negb (is_Lt c)));
     ("and", spec_and); ("or", spec_or); ("not", spec_not);
     ("abs", spec_abs); ("sign", spec_sign); ("floor", spec_floor); ("ceil", spec_ceil); ("round", spec_round);
     ("around", spec_around); ("maximum", spec_maximum); ("minimum", spec_minimum); ("fmax", spec_fmax);
     ("fmin", spec_fmin); ("if_else", spec_if_else); ("where", spec_where); ("coalesce", spec_coalesce);
     ("is_null", spec_is_null); ("is_nan", spec_is_nan); ("is_inf", spec_is_inf); ("is_bad", spec_is_bad);
     ("is_in", spec_is_in); ("mapv", spec_mapv); ("concat", spec_concat); ("trimstr", spec_trimstr);
     ("as_int64", spec_as_int64); ("as_str", spec_as_str); ("arctan2", spec_arctan2)]%string
    ++ map (fun n => (n, spec_math n)) math_names.

  Fixpoint lookup {A} (k : string) (t : list (string * A)) : option A :=
    match t with [] => None | (k', v) :: r => if String.eqb k k' then Some v else lookup k r end.

  Definition spec_method (m : string) (args : list sval) : option sval :=
    match lookup m spec_table with Some f => f args | None => None end.
End Spec.

(* ================================================================== aggregates and window functions
   Meaning over the list of the values of one group / one ordered partition.  Domains: numeric aggregates over
   finite numbers and missing cells, with at least one present value (sum/count over a group with no present value
   is excluded by the property); cumulative functions, shift, first, last, rank over present values only (what a
   missing cell does to a running value is not documented). *)
Definition present (l : list sval) : list sval := filter (fun v => negb (missing v)) l.
Fixpoint all_fin (l : list sval) : option (list Q) :=
  match l with
  | [] => Some []
  | SNum q :: t => option_map (cons q) (all_fin t)
  | _ :: _ => None
  end.
Definition qsum (l : list Q) : Q := fold_right Qplus 0%Q l.
Definition qlen (l : list Q) : Q := inject_Z (Z.of_nat (List.length l)).
Definition qmean (l : list Q) : Q := (qsum l / qlen l)%Q.
Definition qmax2 (a b : Q) : Q := if Qle_bool b a then a else b.
Definition qmin2 (a b : Q) : Q := if Qle_bool a b then a else b.
Fixpoint qfold1 (f : Q -> Q -> Q) (l : list Q) : option Q :=
  match l with [] => None | [x] => Some x | x :: t => option_map (f x) (qfold1 f t) end.
(* sample variance: sum of squared deviations from the mean over (n - 1) *)
Definition qvar (l : list Q) : Q :=
  let m := qmean l in (qsum (map (fun x => ((x - m) * (x - m))%Q) l) / (qlen l - 1))%Q.
(* insertion sort, for the median *)
Fixpoint qinsert (x : Q) (l : list Q) : list Q :=
  match l with [] => [x] | y :: t => if Qle_bool x y then x :: l else y :: qinsert x t end.
Definition qsort (l : list Q) : list Q := fold_right qinsert [] l.
Definition qmedian (l : list Q) : Q :=
  let s := qsort l in let n := List.length s in
  if Nat.even n then ((nth (n / 2 - 1) s 0 + nth (n / 2) s 0) / 2)%Q else nth (n / 2) s 0%Q.
Fixpoint qdistinct (l : list Q) : list Q :=
  match l with [] => [] | x :: t => if existsb (Qeq_bool x) t then qdistinct t else x :: qdistinct t end.
Fixpoint all_bool (l : list sval) : option (list bool) :=
  match l with [] => Some [] | SBool b :: t => option_map (cons b) (all_bool t) | _ :: _ => None end.
Definition nat_sv (n : nat) : sval := SNum (inject_Z (Z.of_nat n)).

Section AggSpec.
  Variable mf : string -> Q -> option Q.

  (* numeric aggregate over the present values; needs >= k of them *)
  Definition agg_present (k : nat) (f : list Q -> option sval) (l : list sval) : option sval :=
    match all_fin (present l) with
    | Some qs => if (k <=? List.length qs)%nat then f qs else None
    | None => None end.

  Definition spec_agg_table : list (string * (list sval -> option sval)) :=
    [ (* "Return sum() of items" *)
      ("sum", agg_present 1 (fun qs => Some (SNum (qsum qs))));
      (* "Return mean" *)
      ("mean", agg_present 1 (fun qs => Some (SNum (qmean qs))));
      (* "Return max" / "Return min" *)
      ("max", agg_present 1 (fun qs => option_map SNum (qfold1 qmax2 qs)));
      ("min", agg_present 1 (fun qs => option_map SNum (qfold1 qmin2 qs)));
      (* "Return number of non-NA cells" *)
      ("count", fun l => Some (nat_sv (List.length (present l))));
      (* "Return number of items" *)
      ("size", fun l => Some (nat_sv (List.length l)));
      ("_size", fun l => Some (nat_sv (List.length l)));
      (* "Return number of unique items": documented for groups without missing cells *)
      ("nunique", fun l => match all_fin l with Some qs => Some (nat_sv (List.length (qdistinct qs))) | None => None end);
      (* "Return True if any items True" / "Return True if all items True": non-missing booleans *)
      ("any", fun l => match all_bool l with Some (b :: bs) => Some (SBool (existsb (fun x => x) (b :: bs))) | _ => None end);
      ("all", fun l => match all_bool l with Some (b :: bs) => Some (SBool (forallb (fun x => x) (b :: bs))) | _ => None end);
      (* "Return median" *)
      ("median", agg_present 1 (fun qs => Some (SNum (qmedian qs))));
      (* "Return sample variance" / "Return sample standard devaition" (sqrt is the shared symbol) *)
      ("var", agg_present 2 (fun qs => Some (SNum (qvar qs))));
      ("std", agg_present 2 (fun qs => option_map SNum (mf "sqrt" (qvar qs))));
      (* "Return any_value": determined only when all present values coincide *)
      ("any_value", agg_present 1 (fun qs => match qdistinct qs with [x] => Some (SNum x) | _ => None end)) ]%string.

  Definition spec_agg (m : string) (l : list sval) : option sval :=
    match lookup m spec_agg_table with Some f => f l | None => None end.
End AggSpec.

(* window functions over one ordered partition (all values present unless said otherwise): one output per row *)
Fixpoint scan1 (f : Q -> Q -> Q) (acc : Q) (l : list Q) : list Q :=
  match l with [] => [] | x :: t => let a := f acc x in a :: scan1 f a t end.
Definition cum (f : Q -> Q -> Q) (l : list Q) : list Q :=
  match l with [] => [] | x :: t => x :: scan1 f x t end.
Fixpoint count_upto (n : nat) (l : list sval) : list sval :=      (* cumulative number of present cells *)
  match l with [] => [] | v :: t => let n' := if missing v then n else S n in nat_sv n' :: count_upto n' t end.
Fixpoint ffill_from (last : sval) (l : list sval) : list sval :=
  match l with [] => [] | v :: t => let w := if missing v then last else v in w :: ffill_from w t end.
Definition qrank (l : list Q) (x : Q) : Q :=                       (* rank among distinct values: 1 + number smaller *)
  inject_Z (Z.of_nat (S (List.length (filter (fun y => Qlt_bool y x) l)))).
Fixpoint qnodup (l : list Q) : bool :=
  match l with [] => true | x :: t => negb (existsb (Qeq_bool x) t) && qnodup t end.
Fixpoint iota (n k : nat) : list sval := match k with O => [] | S j => nat_sv n :: iota (S n) j end.

Definition spec_win_table : list (string * (list sval -> option (list sval))) :=
  [ (* "Return cumsum() of items" etc. *)
    ("cumsum", fun l => option_map (fun qs => map SNum (cum Qplus qs)) (all_fin l));
    ("cumprod", fun l => option_map (fun qs => map SNum (cum Qmult qs)) (all_fin l));
    ("cummax", fun l => option_map (fun qs => map SNum (cum (fun a x => qmax2 a x) qs)) (all_fin l));
    ("cummin", fun l => option_map (fun qs => map SNum (cum (fun a x => qmin2 a x) qs)) (all_fin l));
    (* "Return cumulative number of non-NA cells" *)
    ("cumcount", fun l => Some (count_upto 0 l));
    ("_row_number", fun l => Some (iota 1 (List.length l)));
    (* "Return shifted items": the previous row's value, missing on the first row *)
    ("shift", fun l => match l with [] => Some [] | _ => Some (SNull :: removelast l) end);
    (* "Return first" / "Return last" *)
    ("first", fun l => match all_fin l with Some (x :: t) => Some (map (fun _ => SNum x) l) | _ => None end);
    ("last", fun l => match all_fin l with Some (x :: t) => Some (map (fun _ => SNum (last (x :: t) x)) l) | _ => None end);
    (* "Return item rangings": documented for pairwise distinct values *)
    ("rank", fun l => match all_fin l with Some qs => if qnodup qs then Some (map (fun x => SNum (qrank qs x)) qs) else None | None => None end);
    (* "Return vector with missing vallues filled" *)
    ("ffill", fun l => Some (ffill_from SNull l));
    ("bfill", fun l => Some (rev (ffill_from SNull (rev l)))) ]%string.

Definition spec_win (m : string) (l : list sval) : option (list sval) :=
  match lookup m spec_win_table with Some f => f l | None => None end.
