(* C16 -- hand models of how each executor REALISES natural_join where it does not hand the join to a native SQL join:

     sqlite_right_emul   data_algebra/SQLite.py  _emit_right_join_as_left_join
     sqlite_full_emul    data_algebra/SQLite.py  _emit_full_join_as_complex
     (Polars)            data_algebra/polars_model.py  _natural_join_step: Model/Sem.v under fl_polars
     pandas_join         data_algebra/pandas_base.py   _natural_join_step (pd.merge + coalescing loop)

   transcribed from the code that exists; the primitives they call (a native SQL LEFT JOIN, GROUP BY, UNION ALL,
   polars.join, pandas.merge) are the operators of Model/Sem.v -- modelled, not verified; every model in this file is
   compared with the real executor on every run (Model/JoinEmulCases.v).  No proofs in this file. *)
From Coq Require Import List Bool Arith ZArith QArith String.
Import ListNotations.
From DA Require Import Base.PyRT Base.Val Model.Sem.
Local Open Scope string_scope.
Local Open Scope list_scope.

(* COALESCE(a.c, b.c) over a pair of rows either of which may be the NULL extension; a column a side lacks reads NULL *)
Definition coalesce_cell (ca cb : list string) (ra rb : option (list val)) (c : string) : val :=
  let va := match ra with Some r => get ca r c | None => VNull end in
  let vb := match rb with Some r => get cb r c | None => VNull end in
  if is_null va then vb else va.

(* ------------------------------------------------------------------ RIGHT join as a LEFT join with the sources exchanged *)
(* SELECT list of DBModel.natural_join_to_near_sql: the columns both sources have (COALESCE), then the first source's own
   columns, then the second source's own columns.  first = b, second = a here. *)
Definition swapped_cols (ca cb : list string) : list string :=
  filter (fun c => mem c ca) cb ++ filter (fun c => negb (mem c ca)) cb ++ filter (fun c => negb (mem c cb)) ca.

(* b LEFT JOIN a ON b.on_b[i] = a.on_a[i], shared columns COALESCE(a.c, b.c) (left_is_first = False: the SECOND source first) *)
Definition mirror_left_join (nm : bool) (on_a on_b : list string) (a b : table) : table :=
  let ca := cols a in let cb := cols b in
  let out := swapped_cols ca cb in
  let hit (rb ra : list val) := keys_match nm (key_of cb on_b rb) (key_of ca on_a ra) in
  mktable out
    (flat_map (fun rb => flat_map (fun ra => if hit rb ra then [map (coalesce_cell ca cb (Some ra) (Some rb)) out] else []) (rows a)) (rows b)
     ++ flat_map (fun rb => if existsb (hit rb) (rows a) then [] else [map (coalesce_cell ca cb None (Some rb)) out]) (rows b)).

(* _emit_right_join_as_left_join copies the node, sets jointype = LEFT, sources = [b, a] and exchanges on_a / on_b with the
   sources; the generic generator then writes  ON first.on_a'[i] = second.on_b'[i] , i.e.  b.on_b[i] = a.on_a[i] , and (with
   left_is_first = False) COALESCE(second.c, first.c).  A key column its side lacks would be an SQL error (None); the builder
   never lets that happen. *)
Definition sqlite_right_emul (on_a on_b : list string) (a b : table) : option table :=
  if subset on_a (cols a) && subset on_b (cols b) then Some (mirror_left_join false on_a on_b a b) else None.

(* ------------------------------------------------------------------ FULL join as key table + two LEFT joins *)
(* ops_simulate =  left.project({}, group_by=J).concat_rows(right.project({}, group_by=J), id_column=None).project({}, group_by=J)
                      .natural_join(b=left, on=J, jointype='left').natural_join(b=right, on=J, jointype='left')            *)
Definition full_emul_op (J ca cb : list string) : op :=
  let A := OTable "a" ca in let B := OTable "b" cb in
  OJoin (OJoin (OProject (OConcat (OProject A [] J) (OProject B [] J) None "a" "b") [] J) A J J JLeft) B J J JLeft.

(* the same pipeline on tables: GROUP BY keeps one row per distinct key, a NULL key value being a group of its own *)
Definition key_table (J : list string) (a b : table) : table :=
  sem_project fl_sqlite [] J (sem_concat None "a" "b" (sem_project fl_sqlite [] J a) (sem_project fl_sqlite [] J b)).
Definition sqlite_full_join (J : list string) (a b : table) : table :=
  sem_join false J J JLeft (sem_join false J J JLeft (key_table J a b) a) b.

(* used only when the linked SQLite is older than 3.39.0 (natural_join_to_near_sql tests sqlite3.sqlite_version_info); newer
   engines get their own FULL JOIN, i.e. the join of Model/Sem.v.
   assert len(join_node.on_a) > 0 ; assert join_node.on_a == join_node.on_b  (AssertionError otherwise) *)
Definition sqlite_full_emul (on_a on_b : list string) (a b : table) : option table :=
  match on_a with
  | [] => None
  | _ => if eqb on_a on_b then sem_gen fl_sqlite (full_emul_op on_a (cols a) (cols b)) [("a", a); ("b", b)] else None
  end.

(* ------------------------------------------------------------------ Polars *)
(* _natural_join_step hands INNER / LEFT / FULL to polars.join and coalesces the shared columns afterwards (for FULL: every
   shared column, the same-named keys included, through the `_da_right_tmp` copies polars keeps in a full join); RIGHT is a
   LEFT join with the sources exchanged and the shared columns coalesced second-source-first (mirror_left_join above).
   All of it is the join of Model/Sem.v under flavour fl_polars; nothing separate to model. *)

(* ------------------------------------------------------------------ Pandas *)
(* pd.merge(how, left_on, right_on, suffixes=("", <suffix>)) matches a NULL key with a NULL key.  _natural_join_step therefore
   looks for rows with a null key on each side; when BOTH sides have one, those rows get a marker column (positive row numbers
   on the left, negative on the right, 0 elsewhere) that is appended to the key lists and dropped after the merge, so that a
   null key matches nothing; otherwise it is the plain merge.  The loop after the merge replaces each shared column that has
   a suffixed right copy by "left, or right where left is null" and drops the copy. *)
Definition has_null_key_row (cs ks : list string) (t : table) : bool :=
  existsb (fun r => existsb is_null (key_of cs ks r)) (rows t).
Definition pandas_join (on_a on_b : list string) (jt : jointype) (a b : table) : table :=
  if has_null_key_row (cols a) on_a a && has_null_key_row (cols b) on_b b
  then sem_join false on_a on_b jt a b        (* merge with the marker column among the keys *)
  else sem_join true on_a on_b jt a b.        (* plain pandas.merge *)

(* the declared column arrangement of a result: rows re-read in the order `out` *)
Definition reorder_rows (t : table) (out : list string) : list (list val) := map (fun r => map (get (cols t) r) out) (rows t).
