(* Hand model of data_algebra/data_schema.py over an abstract universe of types.
   ty = Python types, atom = non-null scalar values, isinst = isinstance, type_of = type(v).
   A data-frame cell is `option atom` (None = null/NaN); a value is None, a scalar, or a data frame. *)
From Coq Require Import List Bool Arith String.
Import ListNotations.
From DA Require Import Base.PyRT.

Section S.
Context {ty atom : Type} `{EqDec ty} (isinst : atom -> ty -> bool) (type_of : atom -> ty).

Inductive value := VNone | VAtom (a : atom) | VFrame (cols : list (string * list (option atom))).

(* raw specifications as the user writes them *)
Inductive relem := ENone | EType (t : ty) | EExample (a : atom).
Inductive rcol := RNone | RType (t : ty) | RExample (a : atom) | RSet (l : list relem).
Inductive rspec := RPlain (c : rcol) | RFrame (cols : list (string * rcol)).

(* normalised specifications: _prep_schema_specification *)
Inductive colspec := CNone | CType (t : ty) | CSet (ts : list ty).
Inductive spec := SPlain (c : colspec) | SFrame (cols : list (string * colspec)).

Definition prep_elem (e : relem) : list ty :=
  match e with ENone => [] | EType t => [t] | EExample a => [type_of a] end.
Definition prep_col (c : rcol) : colspec :=
  match c with
  | RNone => CNone
  | RType t => CType t
  | RExample a => CType (type_of a)
  | RSet l => CSet (py_set (flat_map prep_elem l))
  end.
Definition prep (s : rspec) : spec :=
  match s with
  | RPlain c => SPlain (prep_col c)
  | RFrame cols => SFrame (map (fun kc => (fst kc, prep_col (snd kc))) cols)
  end.

(* _check_spec for a scalar against a type / type set: true = no message *)
Definition check_atom (c : colspec) (a : atom) : bool :=
  match c with CNone => true | CType t => isinst a t | CSet ts => existsb (isinst a) ts end.

Definition is_cnone (c : colspec) : bool := match c with CNone => true | _ => false end.

(* _check_data_frame_matches_schema: every declared column present; every non-null cell of a typed column conforms *)
Definition check_frame (cols : list (string * colspec)) (d : list (string * list (option atom))) : bool :=
  forallb (fun kc =>
             match dict_get d (fst kc) with
             | None => false
             | Some cells => is_cnone (snd kc) ||
                             forallb (fun x => match x with None => true | Some a => check_atom (snd kc) a end) cells
             end) cols.

(* _check_spec on an argument or return value.  isinstance(None, t) and isinstance(frame, t) are False for the
   scalar types of the universe. *)
Definition check_value (s : spec) (v : value) : bool :=
  match s, v with
  | SPlain c, VAtom a => check_atom c a
  | SPlain c, _ => is_cnone c
  | SFrame cols, VFrame d => check_frame cols d
  | SFrame _, _ => false
  end.

Inductive outcome {R : Type} := Returned (r : R) | TypeErr | OtherErr.
Arguments outcome : clear implicits.

(* check_args: positional arguments are matched to parameter names by position *)
Fixpoint zip_names (names : list string) (args : list value) : option (list (string * value)) :=
  match args, names with
  | [], _ => Some []
  | a :: t, n :: ns => option_map (cons (n, a)) (zip_names ns t)
  | _ :: _, [] => None                                                    (* arg_names[i]: IndexError *)
  end.

Definition check_args (specs : option (list (string * spec))) (names : list string)
           (args : list value) (kwargs : list (string * value)) : outcome unit :=
  match specs with
  | None => Returned tt
  | Some sp =>
    match zip_names names args with
    | None => OtherErr
    | Some pos =>
      let pos_ok := forallb (fun kv => match dict_get sp (fst kv) with Some s => check_value s (snd kv) | None => true end) pos in
      let named_ok := forallb (fun ks => if mem (fst ks) (map fst pos) then true
                                         else match dict_get kwargs (fst ks) with
                                              | None => false                                      (* expected arg missing *)
                                              | Some v => check_value (snd ks) v
                                              end) sp in
      if pos_ok && named_ok then Returned tt else TypeErr
    end
  end.

(* the wrapped function: switch, check_args, call, check_return *)
Definition wrapped {R : Type} (switch_on : bool) (specs : option (list (string * spec))) (ret_spec : option spec)
           (to_value : R -> value) (names : list string) (f : list value -> list (string * value) -> R)
           (args : list value) (kwargs : list (string * value)) : outcome R :=
  if negb switch_on then Returned (f args kwargs)
  else match check_args specs names args kwargs with
       | TypeErr => TypeErr
       | OtherErr => OtherErr
       | Returned _ =>
           let r := f args kwargs in
           match ret_spec with
           | None => Returned r
           | Some s => if check_value s (to_value r) then Returned r else TypeErr
           end
       end.

(* ---------------- declarative reading of "schema violation" (from the property text) *)
Definition atom_violates (c : colspec) (a : atom) : Prop :=
  match c with CNone => False | CType t => isinst a t = false | CSet ts => forall t, In t ts -> isinst a t = false end.
Definition frame_violates (cols : list (string * colspec)) (d : list (string * list (option atom))) : Prop :=
  exists k c, In (k, c) cols /\
    (dict_get d k = None \/ exists cells a, dict_get d k = Some cells /\ In (Some a) cells /\ atom_violates c a).
Definition value_violates (s : spec) (v : value) : Prop :=
  match s, v with
  | SPlain c, VAtom a => atom_violates c a
  | SPlain c, _ => c <> CNone                 (* a typed argument that is None or a frame: see the finding on null arguments *)
  | SFrame cols, VFrame d => frame_violates cols d
  | SFrame _, _ => True
  end.
End S.
Arguments outcome : clear implicits.
