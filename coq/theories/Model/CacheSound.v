(* A decidable sufficient condition for `cache_sound` (Model/WithForm.v), evaluated by the check on every real NearSQL graph:
   within the query, two sub-query containers with the same cache key
     - are the same query up to the NAMES of the steps (terms, suffix lines, joiners, aliases, narrowing, ops_keys all equal;
       annotation / mergeable / declared dependencies are bookkeeping and are not compared),
     - narrow to the same columns, and
     - the key does not occur again below them.
   It holds for two translations of one sub-pipeline under one column demand as long as the shared part contains no join
   (the operands of a join get fresh aliases, which also occur in its term texts); for those the invariant remains an
   assumption about the engine (aliases do not matter). *)
From Coq Require Import List Bool Arith String Ascii.
Import ListNotations.
From DA Require Import Base.PyRT Model.NearSql Model.WithForm.

(* boolean equalities written directly (the sumbool-based `eqb` of PyRT computes proof terms under vm_compute) *)
Fixpoint leqb {A} (e : A -> A -> bool) (a b : list A) : bool :=
  match a, b with [] , [] => true | x :: s, y :: t => e x y && leqb e s t | _, _ => false end.
Definition oeqb {A} (e : A -> A -> bool) (a b : option A) : bool :=
  match a, b with None, None => true | Some x, Some y => e x y | _, _ => false end.
Definition peqb {A B} (e : A -> A -> bool) (f : B -> B -> bool) (a b : A * B) : bool := e (fst a) (fst b) && f (snd a) (snd b).
Definition seqb := String.eqb.
Definition terms_eqb : option terms -> option terms -> bool := oeqb (leqb (peqb seqb (oeqb seqb))).
Definition deps_eqb : option depmap -> option depmap -> bool := oeqb (leqb (peqb seqb (leqb seqb))).
Definition lseqb : list string -> list string -> bool := leqb seqb.
Definition oseqb : option string -> option string -> bool := oeqb seqb.
Definition ci_eqb (a b : cinfo) : bool :=
  oeqb lseqb (ccols a) (ccols b) && Bool.eqb (cforce a) (cforce b) && oseqb (cpub a) (cpub b).

(* the container data of an operand; the column narrowing of a table / common table expression that is referred to by name
   (not forced) is never looked at, so it is not compared *)
Definition ci_same (s : nearsql) (a b : cinfo) : bool :=
  if is_table s && negb (cforce a) then Bool.eqb (cforce a) (cforce b) && oseqb (cpub a) (cpub b) else ci_eqb a b.

Fixpoint same_mod_names (a b : nearsql) : bool :=
  match a, b with
  | NTable n t, NTable n' t' => seqb n n' && terms_eqb t t'
  | NCte n k, NCte n' k' => seqb n n' && oseqb k k'
  | NUnary _ t s ci sfx _ _ _ k, NUnary _ t' s' ci' sfx' _ _ _ k' =>
      terms_eqb t t' && same_mod_names s s' && ci_same s ci ci' && lseqb sfx sfx' && oseqb k k'
  | NBinary _ t s1 c1 j s2 c2 sfx _ k, NBinary _ t' s1' c1' j' s2' c2' sfx' _ k' =>
      terms_eqb t t' && same_mod_names s1 s1' && ci_same s1 c1 c1' && seqb j j' && same_mod_names s2 s2' && ci_same s2 c2 c2'
      && lseqb sfx sfx' && oseqb k k'
  | NRaw0 _ p sfx _ a k, NRaw0 _ p' sfx' _ a' k' => lseqb p p' && lseqb sfx sfx' && Bool.eqb a a' && oseqb k k'
  | NRaw1 _ p s ci sfx _ a k, NRaw1 _ p' s' ci' sfx' _ a' k' =>
      lseqb p p' && same_mod_names s s' && ci_same s ci ci' && lseqb sfx sfx' && Bool.eqb a a' && oseqb k k'
  | _, _ => false
  end.

Definition pair_ok (fl : flags) (c1 c2 : container) : bool :=
  match ckey fl c1, ckey fl c2 with
  | Some k1, Some k2 =>
      if seqb k1 k2
      then same_mod_names (fst c1) (fst c2) && oeqb lseqb (ccols (snd c1)) (ccols (snd c2)) && negb (mem k1 (desc_keys fl (fst c1)))
      else true
  | _, _ => true
  end.
Definition cache_sound_dec (fl : flags) (q : nearsql) : bool :=
  forallb (fun c1 => forallb (pair_ok fl c1) (conts q)) (conts q).

(* the same condition, not asked of pairs of sub-queries that both contain a join (an operand alias): those are the pairs for
   which the invariant is an assumption about the engine.  Used by the check to tell the two situations apart. *)
Fixpoint has_alias (q : nearsql) : bool :=
  match q with
  | NTable _ _ | NCte _ _ | NRaw0 _ _ _ _ _ _ => false
  | NUnary _ _ s _ _ _ _ _ _ | NRaw1 _ _ s _ _ _ _ _ => has_alias s
  | NBinary _ _ s1 c1 _ s2 c2 _ _ _ =>
      (match cpub c1, cpub c2 with None, None => false | _, _ => true end) || has_alias s1 || has_alias s2
  end.
Definition cache_sound_dec_but_joins (fl : flags) (q : nearsql) : bool :=
  forallb (fun c1 => forallb (fun c2 => pair_ok fl c1 c2 || (has_alias (fst c1) && has_alias (fst c2))) (conts q)) (conts q).
