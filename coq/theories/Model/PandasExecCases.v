(* PEXEC correspondence driver.
   pipeline cases : pexec (the transcription of pandas_base.py, Model/PandasExec.v) evaluated on the pipeline and tables the REAL
                    Pandas executor ran, compared with the frame it returned -- same columns IN THE SAME ORDER, same rows IN THE SAME
                    ORDER (cells with the suite's 1e-8 tolerance), or both failing; plus the declared columns of the node
                    (declared_cols) against ops.column_names.
   primitive cases: each hand model of Model/PdPrim.v evaluated on the arguments a real pandas call received, compared with what
                    pandas returned. *)
From Coq Require Import List Bool Arith ZArith QArith String.
Import ListNotations.
From DA Require Import Base.PyRT Base.Cases Base.Val Model.Sem Model.SemCases Model.PdPrim Model.PandasExec Model.PermGuard.
Local Open Scope list_scope.

Definition table_same (m o : table) : bool := eqb (cols m) (cols o) && rows_close (rows m) (rows o).
Definition otable_same (m o : option table) : bool :=
  match m, o with Some a, Some b => table_same a b | None, None => true | _, _ => false end.
Fixpoint vals_close (a b : list val) : bool :=
  match a, b with [], [] => true | x :: t, y :: u => val_close x y && vals_close t u | _, _ => false end.

Record pcase := mkpcase {
  pc_quirks : pquirks;
  pc_pipeline : op;
  pc_tables : env;
  pc_observed : option table;        (* None: the real executor raised *)
  pc_declared : list string;         (* ops.column_names *)
  pc_colorder : bool;                (* false: a project with two or more group columns is present; on an empty input it appends its
                                        group columns in the iteration order of a Python set, which is not modelled: columns are then
                                        compared as a set and the cells BY NAME *)
  pc_roworder : bool                 (* false: an order_rows sorts by ONE column with tied non-null values on its actual input (numpy's
                                        default argsort is not stable), or the case contains an INNER merge and is compared a second
                                        time (pandas lists the rows of an inner merge in an unspecified order): the rows are compared
                                        as a multiset *)
}.
Definition frames_same (colorder roworder : bool) (m o : option table) : bool :=
  match m, o with
  | Some a, Some b =>
      (if colorder then eqb (cols a) (cols b)
       else set_eqb (cols a) (cols b) && Nat.eqb (List.length (cols a)) (List.length (cols b)))
      && (let ra := rows (sem_select_cols (cols b) a) in
          if roworder then rows_close ra (rows b) else bag_close ra (rows b))
  | None, None => true
  | _, _ => false
  end.
Definition pcase_ok (c : pcase) : bool :=
  frames_same (pc_colorder c) (pc_roworder c) (pexec (pc_quirks c) (pc_pipeline c) (pc_tables c)) (pc_observed c)
  && eqb (declared_cols (pc_pipeline c)) (pc_declared c).
Definition check_pcases (cs : list pcase) : list nat := failing_idx pcase_ok cs.

(* ------------------------------------------------------------------ primitive calls *)
Inductive prim_call :=
  | PSetScalar (c : string) (v : val) (t : table) (r : table)
  | PSetCol (c : string) (vs : list val) (t : table) (r : option table)
  | PSelect (cs : list string) (t : table) (r : option table)
  | PDel (c : string) (t : table) (r : option table)
  | PRename (m : list (string * string)) (t : table) (r : table)
  | PMask (mask : list val) (t : table) (r : option table)
  | PHead (n : nat) (t : table) (r : table)
  | PSort (keys : list (string * bool)) (t : table) (r : option table)
  | PConcatRows (a b : table) (r : table)
  | PConcatCols (a b : table) (r : option table)
  | PIsnull (c : string) (t : table) (r : option (list bool))
  | PIsnullAny (cs : list string) (t : table) (r : option (list bool))
  | PLocSetFrom (mask : list bool) (c c2 : string) (t : table) (r : option table)
  | PMerge (how : merge_how) (l rt : table) (lon ron : list string) (sfx : string) (r : option table)
  | PSeriesAgg (fn : string) (vs : list val) (r : option val)
  | PGroupAgg (ks : list string) (c : string) (fn : string) (t : table) (r : option table)      (* .agg(fn).reset_index() *)
  | PGroupSizes (dropna : bool) (ks : list string) (t : table) (r : list nat)
  | PTransform (ks : list string) (c : string) (fn : string) (extra : list val) (t : table) (r : option (list val))
  | PCumcount (ks : list string) (t : table) (r : option (list val)).

Definition prim_ok (p : prim_call) : bool :=
  match p with
  | PSetScalar c v t r => table_same (pd_set_scalar c v t) r
  | PSetCol c vs t r => otable_same (pd_set_col c vs t) r
  | PSelect cs t r => otable_same (pd_select cs t) r
  | PDel c t r => otable_same (pd_del c t) r
  | PRename m t r => table_same (pd_rename m t) r
  | PMask mask t r => otable_same (pd_mask_rows mask t) r
  | PHead n t r => table_same (pd_head n t) r
  | PSort keys t r => otable_same (pd_sort_values keys t) r
  | PConcatRows a b r => table_same (pd_concat_rows a b) r
  | PConcatCols a b r => otable_same (pd_concat_cols a b) r
  | PIsnull c t r => eqb (pd_isnull c t) r
  | PIsnullAny cs t r => eqb (pd_isnull_any cs t) r
  | PLocSetFrom mask c c2 t r => otable_same (pd_loc_set_from mask c c2 t) r
  | PMerge how l rt lon ron sfx r =>
      match how with
      | HInner => frames_same true false (pd_merge how l rt lon ron sfx) r    (* the rows of an inner merge as a multiset: their order is unspecified *)
      | _ => otable_same (pd_merge how l rt lon ron sfx) r
      end
  | PSeriesAgg fn vs r => match pd_series_agg fn vs, r with Some a, Some b => val_close a b | None, None => true | _, _ => false end
  | PGroupAgg ks c fn t r =>
      otable_same (rk <- pd_row_keys ks t ;; vals <- pd_col c t ;; g <- pd_grouped_agg rk vals fn ;;
                   pd_frame_of_gseries ks (gs_keys g) [(c, gs_vals g)]) r
  | PGroupSizes dropna ks t r => match pd_row_keys ks t with Some rk => eqb (pd_group_sizes dropna rk) r | None => false end
  | PTransform ks c fn extra t r =>
      match (rk <- pd_row_keys ks t ;; vals <- pd_col c t ;; pd_grouped_transform rk vals fn extra), r with
      | Some a, Some b => vals_close a b | None, None => true | _, _ => false
      end
  | PCumcount ks t r =>
      match option_map pd_grouped_cumcount (pd_row_keys ks t), r with
      | Some a, Some b => vals_close a b | None, None => true | _, _ => false
      end
  end.
Definition check_prims (cs : list prim_call) : list nat := failing_idx prim_ok cs.

(* the syntactic tie: scratch-name base strings and pandas calls per step, as extracted from pandas_base.py with `ast` *)
Definition names_ok (observed : list (string * list string)) : bool := eqb observed scratch_bases.
Definition calls_ok (observed : list (string * list string)) : bool := eqb observed pandas_calls.
Definition check_syntax (cs : list (list (string * list string) * list (string * list string))) : list nat :=
  failing_idx (fun c => names_ok (fst c) && calls_ok (snd c)) cs.

(* the premise of the theorems, evaluated on the pipelines the real builder accepted *)
Definition check_wf (cs : list pcase) : list nat := failing_idx (fun c => wf_op_b (pc_pipeline c)) cs.

(* instances of PEXEC_refines_sem_checked on the real cases: where the premises hold and the transcription returns a frame, that
   frame equals sem_gen fl_pandas up to column and row order (cells with the suite's tolerance).  A failure here would contradict
   the theorem (it cannot happen while Props/PEXEC.v checks); the count of guarded cases shows the premises are not vacuous. *)
Definition guarded (c : pcase) : bool := wf_op_b (pc_pipeline c) && perm_guard_b fl_pandas (pc_pipeline c) (pc_tables c).
Definition instance_ok (c : pcase) : bool :=
  if guarded c
  then match pexec (pc_quirks c) (pc_pipeline c) (pc_tables c), sem_gen fl_pandas (pc_pipeline c) (pc_tables c) with
       | Some a, Some b => table_close false a b
       | None, _ => true
       | Some _, None => false
       end
  else true.
Definition check_instances (cs : list pcase) : list nat := failing_idx instance_ok cs.
Definition check_unguarded (cs : list pcase) : list nat := failing_idx guarded cs.
