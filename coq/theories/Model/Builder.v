(* C26 -- hand model of the VALIDATION done by the builder methods of ViewRepresentation and by the node
   constructors (data_algebra/view_representations.py), of the same-step use/produce test of
   expr_parse.parse_assignments_in_context, and of the dispatch the builder methods do on the prefix they are
   called on (skip an order_rows without limit, collapse select_columns after select/drop, merge extends).

   What is kept of a pipeline prefix: its declared column list (column_names) and, for the node kinds the builder
   methods look into, the fields they read.  What is kept of an expression: column references, constants,
   collections, operator applications with the operator name.

   The function-name classes (the fn_names_ sets of expr_rep.py) and the operator catalogue classes (op_catalog.methods_table)
   are NOT written down here: every definition takes them as the argument T, the harness reads them from /repo
   on every run and hands them to the case files, and the theorems hold for every T.

   Modelled, not verified (tied by the correspondence run of harness/props/C26.py): this transcription itself;
   the lark parser (expressions arrive parsed; its "unknown symbol" test is the same condition as the node
   constructors' "unknown columns" test, evaluated earlier, and is modelled by the latter);
   try_to_merge_ops is NOT hand-modelled: it is Gen/G_MergeOps.v, regenerated from data_ops_utils.py. *)
From Coq Require Import List Bool Arith String.
Import ListNotations.
From DA Require Import Base.PyRT Model.Extend Gen.G_MergeOps.

(* ------------------------------------------------------------------ expressions *)
(* expr_rep: ColumnReference | Value | ListTerm/DictTerm | Expression(op, args) *)
Inductive expr :=
| ECol (c : string)
| EVal
| EColl
| EOp (op : string) (args : list expr).

(* PreTerm.get_column_names *)
Fixpoint cols_used (e : expr) : list string :=
  match e with
  | ECol c => [c]
  | EOp _ args => flat_map cols_used args
  | _ => []
  end.

Definition assignments := list (string * expr).
Definition keys (ops : assignments) : list string := map fst ops.
Definition ops_used (ops : assignments) : list string := flat_map (fun ke => cols_used (snd ke)) ops.

(* the function-name classes of expr_rep.py and the operator classes of op_catalog.py (read from /repo at run time) *)
Record tables := mkT {
  t_w : list string;      (* fn_names_that_imply_windowed_situation *)
  t_ow : list string;     (* fn_names_that_imply_ordered_windowed_situation *)
  t_np : list string;     (* fn_names_not_allowed_in_project *)
  t_cw : list string;     (* fn_names_that_contradict_windowed_situation *)
  t_co : list string;     (* fn_names_that_contradict_ordered_windowed_situation *)
  t_catw : list string;   (* operators the catalogue documents for windowed extend (classes g, w, up): specification side only *)
  t_catp : list string    (* operators the catalogue documents for project (classes p, up): specification side only *)
}.

(* ------------------------------------------------------------------ small helpers *)
Definition nonempty {A} (l : list A) : bool := match l with [] => false | _ => true end.
Fixpoint nodupb (l : list string) : bool :=
  match l with [] => true | x :: t => negb (mem x t) && nodupb t end.
Definition notin (l : list string) (x : string) : bool := negb (mem x l).

Inductive result := Reject | Accept (cols : list string).

(* ViewRepresentation.__init__: at least one column, no repeated column *)
Definition finish (cols : list string) : result :=
  if nonempty cols && nodupb cols then Accept cols else Reject.

(* partition_by after _work_col_group_arg: the number 1 or a list (None = [], a string = a one-element list) *)
Inductive pspec := POne | PList (l : list string).
Definition plist (p : pspec) : list string := match p with POne => [] | PList l => l end.
Definition is_one (p : pspec) : bool := match p with POne => true | _ => false end.

(* _work_col_group_arg for a list argument: no repeats, all known *)
Definition wcg (cols l : list string) : bool := nodupb l && subset l cols.

(* ------------------------------------------------------------------ steps *)
Inductive step :=
| SExtend (ops : assignments) (part : pspec) (order rev : list string)
| SProject (ops : assignments) (group : list string)
| SSelectRows (e : expr)
| SSelectCols (cs : list string)
| SDropCols (cs : list string)
| SRename (m : list (string * string))            (* new name -> old name *)
| SMap (m : list (string * option string))        (* old name -> new name, None = delete *)
| SOrder (cs rev : list string) (limit : option nat)
| SJoin (bcols : list string) (on : list (string * string)) (jt : string) (check : bool)   (* jt upper-cased *)
| SConcat (bcols : list string) (idc : option string).

(* ------------------------------------------------------------------ prefixes *)
(* what the builder methods can see of the pipeline they are called on *)
Inductive prefix :=
| PNode (cols : list string)                       (* a table description, or any node the builders do not look into *)
| POrder (src : prefix) (limit : option nat)       (* OrderRowsNode: is_trivial_when_intermediate_ iff limit is None *)
| PSelect (src : prefix) (cs : list string)        (* SelectColumnsNode *)
| PDrop (src : prefix) (cs : list string)          (* DropColumnsNode *)
| PExtend (src : prefix) (ops : assignments) (npart : list string) (nwind : bool) (norder nrev : list string).
   (* ExtendNode: ops, partition_by (the number 1 stored as []), windowed_situation, order_by, reverse *)

Fixpoint declared (p : prefix) : list string :=
  match p with
  | PNode cols => cols
  | POrder src _ => declared src
  | PSelect _ cs => cs
  | PDrop src cs => filter (notin cs) (declared src)
  | PExtend src ops _ _ _ _ => declared src ++ filter (notin (declared src)) (keys ops)
  end.

Definition trivial (p : prefix) : option prefix :=
  match p with POrder src None => Some src | _ => None end.

(* ------------------------------------------------------------------ parse_assignments_in_context *)
(* columns used by an assignment other than the one it assigns ("can use a column to update itself") *)
Definition used_elsewhere (ops : assignments) : list string :=
  flat_map (fun ke => remove_elem (fst ke) (cols_used (snd ke))) ops.
Definition parse_ok (ops : assignments) : bool :=
  nodupb (keys ops)                                     (* "ops keys must be unique" (list-of-pairs form) *)
  && disjointb (keys ops) (used_elsewhere ops).         (* "columns both produced and used in same expression set" *)

(* ------------------------------------------------------------------ ExtendNode.__init__ *)
Definition is_op (e : expr) : bool := match e with EOp _ _ => true | _ => false end.
Definition is_val (e : expr) : bool := match e with EVal => true | _ => false end.
Definition implies_windowed (T : tables) (ops : assignments) : bool :=
  existsb (fun ke => match snd ke with EOp op _ => mem op (t_w T) | _ => false end) ops.

Definition windowed (T : tables) (ops : assignments) (part : pspec) (order : list string) : bool :=
  implies_windowed T ops || is_one part || nonempty (plist part) || nonempty order.

(* the per-assignment tests of a windowed extend *)
Definition win_op_ok (T : tables) (src : list string) (ordered : bool) (e : expr) : bool :=
  match e with
  | EOp op args =>
      forallb is_val (tl args)                                              (* args[1:] are constants *)
      && match args with
         | [] => true
         | ECol c :: _ => mem c src                                         (* "not in source column set" *)
         | EVal :: _ => true
         | _ => false                                                       (* "too complex an expression" *)
         end
      && negb (mem op (t_cw T))
      && negb (ordered && mem op (t_co T))
      && negb (negb ordered && mem op (t_ow T))
  | _ => false                                                              (* "non-aggregated expression" *)
  end.

Definition extend_node (T : tables) (src : list string) (ops : assignments) (part : pspec) (order rev : list string) : result :=
  let np := plist part in
  if negb (subset (ops_used ops) src) then Reject                           (* referred to unknown columns *)
  else if negb (nodupb np && nodupb order && nodupb rev) then Reject        (* duplicate names *)
  else if negb (subset np src && subset order src) then Reject              (* unknown partition_by / order_by *)
  else if negb (subset rev order) then Reject                               (* reverse columns not in order_by *)
  else if negb (disjointb (keys ops) (np ++ order ++ rev)) then Reject      (* tried to change *)
  else if windowed T ops part order && negb (forallb (fun ke => win_op_ok T src (nonempty order) (snd ke)) ops) then Reject
  else finish (src ++ filter (notin src) (keys ops)).

(* extend_parsed_ before it looks at self: _work_col_group_arg x3 and the produced/partition/order tests *)
Definition extend_pre (cols : list string) (ks : list string) (part : pspec) (order rev : list string) : bool :=
  wcg cols (plist part) && wcg cols order && wcg cols rev
  && (if nonempty (plist part) then disjointb ks (plist part) && disjointb (plist part) order else true)
  && disjointb ks order
  && subset rev order.

Fixpoint strs_eqb (a b : list string) : bool :=
  match a, b with
  | [], [] => true
  | x :: s, y :: t => String.eqb x y && strs_eqb s t
  | _, _ => false
  end.

(* the test that guards merging in extend_parsed_ (self is an ExtendNode with the stored fields npart nwind norder nrev) *)
Definition merge_guard (T : tables) (ops : assignments) (part : pspec) (order rev : list string)
           (npart : list string) (nwind : bool) (norder nrev : list string) : bool :=
  let compatible_partition :=
    (negb (is_one part) && strs_eqb (plist part) npart)
    || ((is_one part || negb (nonempty (plist part))) && negb (nonempty npart)) in
  compatible_partition && Bool.eqb (windowed T ops part order) nwind
  && strs_eqb order norder && strs_eqb rev nrev.

Definition merge_ops (o1 o2 : assignments) : option assignments :=
  try_to_merge_ops (get_columns_used cols_used) o1 o2.

Fixpoint extend_parsed (T : tables) (p : prefix) (ops : assignments) (part : pspec) (order rev : list string) : result :=
  if negb (nonempty ops) then Accept (declared p)                           (* nothing to add: return self *)
  else if negb (extend_pre (declared p) (keys ops) part order rev) then Reject
  else match p with
       | POrder src None => extend_parsed T src ops part order rev         (* forwards parsed_ops, partition_by, order_by, reverse *)
       | PExtend src ops1 npart nwind norder nrev =>
           if merge_guard T ops part order rev npart nwind norder nrev then
             match merge_ops ops1 ops with
             | Some m => extend_node T (declared src) m part order rev
             | None => extend_node T (declared p) ops part order rev
             end
           else extend_node T (declared p) ops part order rev
       | _ => extend_node T (declared p) ops part order rev
       end.

Definition do_extend (T : tables) (p : prefix) (ops : assignments) (part : pspec) (order rev : list string) : result :=
  if negb (parse_ok ops) then Reject else extend_parsed T p ops part order rev.

(* ------------------------------------------------------------------ ProjectNode.__init__ *)
Definition proj_op_ok (T : tables) (e : expr) : bool :=
  match e with
  | EOp op args =>
      Nat.leb (List.length args) 1                                          (* "non-trivial aggregation expression" *)
      && match args with
         | [] => true
         | ECol _ :: _ => true
         | EVal :: _ => true
         | _ => false                                                       (* "argument must be a column or value" *)
         end
      && negb (mem op (t_ow T))
      && negb (mem op (t_np T))                                             (* "is not allowed in project" *)
  | _ => false                                                              (* "non-aggregated expression in project" *)
  end.

Definition project_node (T : tables) (src : list string) (ops : assignments) (group : list string) : result :=
  if negb (subset (group ++ ops_used ops) src) then Reject                  (* referred to unknown columns *)
  else if negb (nodupb group) then Reject
  else match finish (group ++ filter (notin group) (keys ops)) with
       | Reject => Reject
       | Accept c => if forallb (fun ke => proj_op_ok T (snd ke)) ops then Accept c else Reject
       end.

Fixpoint project_parsed (T : tables) (p : prefix) (ops : assignments) (group : list string) : result :=
  if negb (wcg (declared p) group) then Reject
  else if negb (nonempty ops) && negb (nonempty group) then Reject          (* "project must have ops or group_by" *)
  else if negb (disjointb (keys ops) group) then Reject                     (* "project can not alter grouping columns" *)
  else match p with
       | POrder src None => project_parsed T src ops group                 (* forwards parsed_ops, group_by *)
       | _ => project_node T (declared p) ops group
       end.

Definition do_project (T : tables) (p : prefix) (ops : assignments) (group : list string) : result :=
  if negb (parse_ok ops) then Reject else project_parsed T p ops group.

(* ------------------------------------------------------------------ select_rows *)
(* SelectRowsNode.__init__: "referred to unknown columns" (the test added by /repo 2b5c834; before it a parsed term naming an
   unknown column was accepted and failed only at evaluation -- corpus/C26/select-rows-unknown-column-term.json) *)
Definition select_rows_node (src : list string) (e : expr) : result :=
  if negb (subset (cols_used e) src) then Reject else finish src.
Fixpoint do_select_rows (p : prefix) (e : expr) : result :=
  match p with
  | POrder src None => do_select_rows src e                                 (* forwards expr *)
  | _ => select_rows_node (declared p) e
  end.

(* ------------------------------------------------------------------ select_columns / drop_columns *)
Definition select_node (src cs : list string) : result :=
  if negb (nonempty cs) then Reject
  else if negb (subset cs src) then Reject                                  (* selecting unknown columns *)
  else finish cs.
Fixpoint do_select_cols (p : prefix) (cs : list string) : result :=
  if negb (nonempty cs) then Reject                                         (* "must select at least one column" *)
  else if negb (subset cs (declared p)) then Reject                         (* validated against self BEFORE any collapsing *)
  else match p with
       | POrder src None => do_select_cols src cs
       | PSelect src _ => do_select_cols src cs
       | PDrop src _ => do_select_cols src cs
       | _ => select_node (declared p) cs
       end.

Definition drop_node (src cs : list string) : result :=
  if negb (subset cs src) then Reject                                       (* dropping unknown columns *)
  else finish (filter (notin cs) src).                                      (* "can not drop all columns" *)
Fixpoint do_drop_cols (p : prefix) (cs : list string) : result :=
  if negb (nonempty cs) then Accept (declared p)
  else match p with
       | POrder src None => do_drop_cols src cs
       | _ => drop_node (declared p) cs
       end.

(* ------------------------------------------------------------------ rename_columns / map_columns *)
(* (set(source.column_names) - set(new_cols).intersection(orig_cols)).intersection(new_cols) *)
Definition collisions (src new orig : list string) : list string :=
  set_inter (set_diff src (set_inter new orig)) new.

(* reverse_mapping = {v: k for (k, v) in column_remapping.items()}: the last key mapped from v wins *)
Fixpoint rev_lookup (m : list (string * string)) (c : string) : option string :=
  match m with
  | [] => None
  | (k, v) :: t => match rev_lookup t c with Some k' => Some k' | None => if String.eqb v c then Some k else None end
  end.
Definition rename_node (src : list string) (m : list (string * string)) : result :=
  let new := map fst m in
  let orig := map snd m in
  if negb (subset orig src) then Reject                                     (* tried to rename unknown columns *)
  else if nonempty (collisions src new orig) then Reject                    (* collides with existing columns *)
  else finish (map (fun c => match rev_lookup m c with Some k => k | None => c end) src).
Fixpoint do_rename (p : prefix) (m : list (string * string)) : result :=
  if negb (nonempty m) then Accept (declared p)
  else match p with
       | POrder src None => do_rename src m
       | _ => rename_node (declared p) m
       end.

Definition map_new (m : list (string * option string)) : list string :=
  flat_map (fun kv => match snd kv with Some v => [v] | None => [] end) m.
Definition map_deleted (m : list (string * option string)) : list string :=
  flat_map (fun kv => match snd kv with Some _ => [] | None => [fst kv] end) m.
Fixpoint map_lookup (m : list (string * option string)) (c : string) : option string :=
  match m with
  | [] => None
  | (k, v) :: t => if String.eqb k c then v else map_lookup t c
  end.
Definition map_node (src : list string) (m : list (string * option string)) : result :=
  let new := map_new m in
  let orig := map fst m in
  if negb (subset orig src) then Reject
  else if nonempty (collisions src new orig) then Reject
  else finish (map (fun c => match map_lookup m c with Some v => v | None => c end)
                   (filter (notin (map_deleted m)) src)).
Fixpoint do_map (p : prefix) (m : list (string * option string)) : result :=
  if negb (nonempty m) then Accept (declared p)
  else match p with
       | POrder src None => do_map src m
       | _ => map_node (declared p) m
       end.

(* ------------------------------------------------------------------ order_rows *)
Definition order_node (src cs rev : list string) : result :=
  if negb (subset cs src) then Reject                                       (* missing required columns *)
  else if negb (subset rev cs) then Reject                                  (* columns declared reverse, but not order *)
  else finish src.
Fixpoint do_order (p : prefix) (cs rev : list string) (limit : option nat) : result :=
  if negb (nonempty cs) && match limit with None => true | Some _ => false end then Accept (declared p)
  else match p with
       | POrder src None => do_order src cs rev limit                       (* forwards columns, reverse, limit *)
       | _ => order_node (declared p) cs rev
       end.

(* ------------------------------------------------------------------ natural_join *)
Definition join_types : list string := ["INNER"; "LEFT"; "RIGHT"; "OUTER"; "FULL"; "CROSS"]%string.
Definition join_node (a b : list string) (on : list (string * string)) (jt : string) (check : bool) : result :=
  let on_a := map fst on in
  let on_b := map snd on in
  if negb (subset on_a a) then Reject                                       (* left table missing join keys *)
  else if negb (subset on_b b) then Reject                                  (* right table missing join keys *)
  else if check && negb (subset (set_inter a b) (set_inter on_a on_b)) then Reject
  else
    let all := a ++ filter (notin a) b in
    let names := if subset all a then a else if subset all b && subset b all then b else all in   (* "re-use column names" *)
    match finish names with
    | Reject => Reject
    | Accept c =>
        if negb (mem jt join_types) then Reject                             (* join type not supported *)
        else if String.eqb jt "CROSS" && nonempty on then Reject            (* CROSS joins must have an empty 'on' list *)
        else Accept c
    end.
Fixpoint do_join (p : prefix) (b : list string) (on : list (string * string)) (jt : string) (check : bool) : result :=
  match p with
  | POrder src None => do_join src b on jt check       (* forwards b, on, jointype, check_all_common_keys_in_equi_spec *)
  | _ => join_node (declared p) b on jt check
  end.

(* ------------------------------------------------------------------ concat_rows *)
Definition concat_node (a b : list string) (idc : option string) : result :=
  if negb (subset a b && subset b a) then Reject                            (* a and b should have same set of column names *)
  else match idc with
       | None => finish a
       | Some c => if mem c a then Reject else finish (a ++ [c])            (* id_column should not be an input column *)
       end.
Fixpoint do_concat (p : prefix) (b : list string) (idc : option string) : result :=
  match p with
  | POrder src None => do_concat src b idc                                  (* forwards b, id_column, a_name, b_name *)
  | _ => concat_node (declared p) b idc
  end.

(* ------------------------------------------------------------------ one step on a prefix / on bare columns *)
Definition apply_step (T : tables) (p : prefix) (s : step) : result :=
  match s with
  | SExtend ops part order rev => do_extend T p ops part order rev
  | SProject ops group => do_project T p ops group
  | SSelectRows e => do_select_rows p e
  | SSelectCols cs => do_select_cols p cs
  | SDropCols cs => do_drop_cols p cs
  | SRename m => do_rename p m
  | SMap m => do_map p m
  | SOrder cs rev limit => do_order p cs rev limit
  | SJoin b on jt check => do_join p b on jt check
  | SConcat b idc => do_concat p b idc
  end.

Definition build_step (T : tables) (cols : list string) (s : step) : result := apply_step T (PNode cols) s.

(* what each builder method hands on when it skips a trivial intermediate node: positional arguments by position (#i),
   keyword arguments by keyword, sorted (compared with the `return self.sources[0].<method>(...)` calls found in the
   source text on every run; the do_* functions above pass exactly these) *)
Definition forwarded_args : list (string * list string) :=
  [ ("extend_parsed_", ["order_by"; "parsed_ops"; "partition_by"; "reverse"]);
    ("project_parsed_", ["#0"; "group_by"]);
    ("natural_join", ["#0"; "check_all_common_keys_in_equi_spec"; "jointype"; "on"]);
    ("concat_rows", ["#0"; "a_name"; "b_name"; "id_column"]);
    ("select_rows_parsed_", ["parsed_expr"]);
    ("select_rows", ["#0"]);
    ("drop_columns", ["#0"]);
    ("select_columns", ["#0"]);
    ("map_columns", ["#0"]);
    ("rename_columns", ["#0"]);
    ("order_rows", ["#0"; "limit"; "reverse"]);
    ("convert_records", ["#0"]) ]%string.
