(* C27 -- vocabulary for "the window function over the row's own partition in the declared order" (definitions only; the
   lemmas are in Proofs/WindowP*.v), and hand models of the three places where a real backend computes something ELSE than
   Model/Sem.v's window function (each is a listed finding, each is compared with the real backend by the case driver
   Model/WindowCases.v on every run):
     sql_ordered_agg   AGG(x) OVER (PARTITION BY .. ORDER BY ..) -- SQL's default frame runs from the partition start to
                       the current row, so a GROUP aggregate written in an ORDERED window is a running aggregate on SQL
     polars_first/last Polars Expr.first()/last() return the first/last element, null or not (Pandas: first/last non-null)
     polars_nunique    Polars n_unique() counts null as a value (Pandas nunique() does not) *)
From Coq Require Import List Bool Arith ZArith QArith String.
Import ListNotations.
From DA Require Import Base.PyRT Base.Val Model.Sem.
Local Open Scope string_scope.
Local Open Scope list_scope.

(* the declared order: the order_by columns, each with "descending?" = it is listed in reverse *)
Definition okeys_of (w : window) : list (string * bool) := map (fun c => (c, mem c (w_rev w))) (w_order w).

(* r' is in the partition of r: equivalent partition keys (keys_eqv: null groups with null, and only with null) *)
Definition same_part (cs pk : list string) (r r' : list val) : bool := keys_eqv (key_of cs pk r) (key_of cs pk r').
Definition part_rows (cs pk : list string) (rs : list (list val)) (r : list val) : list (list val) := filter (same_part cs pk r) rs.
(* the same with every row tagged by its position in the table *)
Definition part_tagged (cs pk : list string) (rs : list (list val)) (r : list val) : list (nat * list val) :=
  filter (fun ir => same_part cs pk r (snd ir)) (tag_from 0 rs).

Definition tle (fl : flavor) (cs : list string) (keys : list (string * bool)) (a b : nat * list val) : bool :=
  row_le fl cs keys (snd a) (snd b).
(* the row's partition in the declared order *)
Definition sorted_tagged (fl : flavor) (cs : list string) (w : window) (rs : list (list val)) (r : list val) : list (nat * list val) :=
  stable_sort (tle fl cs (okeys_of w)) (part_tagged cs (w_part w) rs r).
Definition sorted_rows (fl : flavor) (cs : list string) (w : window) (rs : list (list val)) (r : list val) : list (list val) :=
  stable_sort (row_le fl cs (okeys_of w)) (part_rows cs (w_part w) rs r).

(* the value a window function sees on a row: its first argument evaluated there (a zero-argument function sees `true`) *)
Definition arg_val (fl : flavor) (cs : list string) (arg : option expr) (r : list val) : val :=
  match arg with Some a => eval_expr fl cs r a | None => VBool true end.
(* what the builder admits as a window argument: a column or a constant (ExtendNode.__init__) *)
Definition simple_arg (arg : option expr) : Prop :=
  match arg with None => True | Some (ECol _) => True | Some (EConst _) => True | Some (EOp _ _) => False end.

(* no two rows (positions) of l are tied *)
Definition strict_total_on {A} (le : A -> A -> bool) (l : list A) : Prop :=
  forall i j a b, nth_error l i = Some a -> nth_error l j = Some b -> le a b = true -> le b a = true -> i = j.
(* no row of l has a null in an order column *)
Definition no_null_order_keys (cs : list string) (w : window) (l : list (list val)) : Prop :=
  forall r c, In r l -> In c (w_order w) -> get cs r c <> VNull.

(* window functions whose value depends on no backend convention at all *)
Definition convention_free_fns : list string :=
  ["_row_number"; "row_number"; "_count"; "cumcount"; "shift"; "cumprod"; "rank"; "first"; "last"; "ffill"; "bfill";
   "mean"; "min"; "max"; "median"; "nunique"; "var"].
(* when two backends' conventions give the same function values on the ordered values vs of one partition *)
Definition fn_conventions_agree (fl1 fl2 : flavor) (op : string) (vs : list val) : Prop :=
  In op convention_free_fns
  \/ (In op ["count"; "size"; "_size"] /\ vs <> [])
  \/ (op = "sum" /\ (nums vs <> [] \/ f_empty_agg_null fl1 = f_empty_agg_null fl2))
  \/ (In op ["cumsum"; "cummax"; "cummin"] /\ (Forall (fun v => num_of v <> None) vs \/ f_running_carry fl1 = f_running_carry fl2)).

(* ------------------------------------------------------------------ hand models of the listed backend deviations *)
(* SQL default frame on a total order: the aggregate of the values up to and including the current row *)
Definition sql_ordered_agg (fl : flavor) (op : string) (vs : list val) : list val :=
  map (fun j => agg_fn fl op (firstn (S j) vs)) (seq 0 (List.length vs)).
Definition polars_first (vs : list val) : list val := map (fun _ => hd VNull vs) vs.
Definition polars_last (vs : list val) : list val := map (fun _ => last vs VNull) vs.
Definition polars_nunique (vs : list val) : list val :=
  let n := (List.length (qdistinct (nums vs)) + (if existsb is_null vs then 1 else 0))%nat in
  map (fun _ => qn (inject_Z (Z.of_nat n))) vs.
