(* Model/ExprAst.v -- the abstract syntax of the accepted fragment of python3_lark.py, with explicit parentheses.

   A `dtree` is a Python expression AST in which every pair of parentheses of the source text is a node (DPar).
   `unparse` writes it as tokens (nothing is added: parentheses are printed exactly where DPar nodes are),
   `strip` is the lark tree the grammar assigns to it (parentheses leave no node, a binary level with one operand
   leaves no node either), and `wf_at L` says that the tree can be derived from the grammar's nonterminal of
   level L: every operand sits at the level its position requires, or is parenthesised.  Quantifying over all
   well-formed dtrees is quantifying over all expressions of the fragment in all their parenthesisations.
   C13_precedence: lark_of (unparse d) = Some (strip d).   No proofs here. *)
From Coq Require Import List Bool String Ascii ZArith NArith QArith Arith.
Import ListNotations.
From DA Require Import Model.PyExpr Model.ExprParse.
Local Close Scope Q_scope.
Local Open Scope string_scope.
Local Open Scope bool_scope.
Local Open Scope list_scope.

Inductive dtree :=
| DPar (d : dtree)                                          (* "(" test ")" *)
| DName (s : string)                                        (* NAME -> var *)
| DNum (t : tok)                                            (* number *)
| DStr (t : tok)                                            (* string *)
| DConst (k : string)                                       (* None / True / False *)
| DChain (L : nat) (d0 : dtree) (rest : list (string * dtree))     (* operand (op operand)+ at binary level L *)
| DNot (d : dtree)                                          (* "not" not_test *)
| DFactor (op : string) (d : dtree)                         (* (+|-|~) factor *)
| DPower (b e : dtree)                                      (* atom_expr "**" factor *)
| DCall (f : dtree) (args : list dtree) (trailing : bool)   (* atom_expr "(" [arguments] ")" *)
| DAttr (o : dtree) (n : string)                            (* atom_expr "." NAME *)
| DColl (k : bk) (items : list dtree) (trailing : bool)     (* tuple / list / set displays *)
| DDict (items : list (dtree * dtree)) (trailing : bool).   (* dict display *)

(* grammar level of the root (see binlvl): 2 = not_test, 10 = factor, 11 = power, 12 = atom_expr *)
Definition dlvl (d : dtree) : nat :=
  match d with
  | DChain L _ _ => L
  | DNot _ => 2
  | DFactor _ _ => 10
  | DPower _ _ => 11
  | _ => 12
  end.

Definition level_name (L : nat) : string :=
  match L with
  | 0 => "or_test" | 1 => "and_test" | 3 => "comparison" | 4 => "expr" | 5 => "xor_expr" | 6 => "and_expr"
  | 7 => "shift_expr" | 8 => "arith_expr" | _ => "term"
  end.
(* levels whose rule is written with a `!_op` sub-rule keep the operator tokens in the tree *)
Definition level_keeps (L : nat) : bool :=
  match L with 3 | 7 | 8 | 9 => true | _ => false end.
Definition is_chain_level (L : nat) : bool :=
  match L with 0 | 1 | 3 | 4 | 5 | 6 | 7 | 8 | 9 => true | _ => false end.

Definition at_least (L : nat) (d : dtree) : bool := Nat.leb L (dlvl d).

(* well-formed node: every operand at the level its position needs *)
Fixpoint wfn (d : dtree) : bool :=
  match d with
  | DPar x => wfn x
  | DName _ => true
  | DNum t => match t with TInt _ | TFloat _ => true | TOther isnum _ => isnum | _ => false end
  | DStr t => match t with TStr _ => true | TOther isnum _ => negb isnum | _ => false end
  | DConst k => mem_str k ["None"; "True"; "False"]
  | DChain L d0 rest =>
      is_chain_level L && negb (match rest with [] => true | _ => false end)
      && at_least (S L) d0 && wfn d0
      && forallb (fun p => is_binop_at L (fst p) && at_least (S L) (snd p) && wfn (snd p)) rest
  | DNot x => at_least 2 x && wfn x
  | DFactor op x => is_uop op && at_least 10 x && wfn x
  | DPower b e => at_least 12 b && wfn b && at_least 10 e && wfn e
  | DCall f args tr => at_least 12 f && wfn f && forallb wfn args && (negb tr || negb (match args with [] => true | _ => false end))
  | DAttr o _ => at_least 12 o && wfn o
  | DColl k items tr =>
      forallb wfn items
      && match k, items with
         | BParen, [] => negb tr
         | BParen, [_] => tr                 (* a one-element tuple needs its comma; "(" x ")" is DPar *)
         | BParen, _ => true
         | BBrack, [] => negb tr
         | BBrack, _ => true
         | BBrace, [] => false               (* {} is the empty dict *)
         | BBrace, _ => true
         end
  | DDict items tr =>
      forallb (fun kv => wfn (fst kv) && wfn (snd kv)) items
      && (negb tr || negb (match items with [] => true | _ => false end))
  end.

Definition wf_at (L : nat) (d : dtree) : bool := at_least L d && wfn d.

(* the lark tree *)
Fixpoint strip (d : dtree) : ltree :=
  match d with
  | DPar x => strip x
  | DName s => LNode "var" [LTok (TName s)]
  | DNum t => LNode "number" [LTok t]
  | DStr t => LNode "string" [LTok t]
  | DConst k => LNode (if k ==s "None" then "const_none" else if k ==s "True" then "const_true" else "const_false") []
  | DChain L d0 rest => mk_chain (level_name L) (level_keeps L) (strip d0) (map (fun p => (fst p, strip (snd p))) rest)
  | DNot x => LNode "not" [strip x]
  | DFactor op x => LNode "factor" [LTok (TSym op); strip x]
  | DPower b e => LNode "power" [strip b; strip e]
  | DCall f args _ =>
      LNode "funccall" [strip f; match args with [] => LNone | _ => LNode "arguments" (map strip args) end]
  | DAttr o n => LNode "getattr" [strip o; LTok (TName n)]
  | DColl k items tr =>
      match k, items with
      | BParen, [] => LNode "tuple" [LNone]
      | BParen, _ => LNode "tuple" [LNode "tuplelist_comp" (map strip items)]
      | BBrack, [] => LNode "list" [LNone]
      | BBrack, [x] => if tr then LNode "list" [LNode "tuplelist_comp" [strip x]] else LNode "list" [strip x]
      | BBrack, _ => LNode "list" [LNode "tuplelist_comp" (map strip items)]
      | BBrace, _ => LNode "set" [LNode "set_comp" (map strip items)]
      end
  | DDict items _ =>
      match items with
      | [] => LNode "dict" [LNone]
      | _ => LNode "dict" [LNode "dict_comp" (map (fun kv => LNode "key_value" [strip (fst kv); strip (snd kv)]) items)]
      end
  end.

Definition open_tok (k : bk) : tok := TSym (match k with BParen => "(" | BBrack => "[" | BBrace => "{" end).
Definition close_tok (k : bk) : tok := TSym (match k with BParen => ")" | BBrack => "]" | BBrace => "}" end).

(* comma separated, with an optional trailing comma *)
Fixpoint commas (parts : list (list tok)) (trailing : bool) : list tok :=
  match parts with
  | [] => []
  | [p] => p ++ (if trailing then [TSym ","] else [])
  | p :: more => p ++ TSym "," :: commas more trailing
  end.

(* the source tokens *)
Fixpoint unparse (d : dtree) : list tok :=
  match d with
  | DPar x => TSym "(" :: unparse x ++ [TSym ")"]
  | DName s => [TName s]
  | DNum t => [t]
  | DStr t => [t]
  | DConst k => [TSym k]
  | DChain _ d0 rest => unparse d0 ++ flat_map (fun p => TSym (fst p) :: unparse (snd p)) rest
  | DNot x => TSym "not" :: unparse x
  | DFactor op x => TSym op :: unparse x
  | DPower b e => unparse b ++ TSym "**" :: unparse e
  | DCall f args tr => unparse f ++ TSym "(" :: commas (map unparse args) tr ++ [TSym ")"]
  | DAttr o n => unparse o ++ [TSym "."; TName n]
  | DColl k items tr => open_tok k :: commas (map unparse items) tr ++ [close_tok k]
  | DDict items tr =>
      TSym "{" :: commas (map (fun kv => unparse (fst kv) ++ TSym ":" :: unparse (snd kv)) items) tr ++ [TSym "}"]
  end.

(* the printer with the fewest parentheses: parenthesise a sub-tree exactly when its level is below `need` *)
Definition par_if (need : nat) (d : dtree) : dtree := if Nat.ltb (dlvl d) need then DPar d else d.
