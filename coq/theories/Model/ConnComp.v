(* Hand model of data_algebra/connected_components.py (the Python relies on aliasing of Component
   objects, which the translator does not support).  Component objects live in a store indexed by
   nat "addresses"; `comp` is the Python dict `components : vertex -> Component`. *)
From Coq Require Import List Bool Arith.
Import ListNotations.
From DA Require Import Base.PyRT.

Section CC.
Context {V : Type} `{EqDec V} (leb : V -> V -> bool).

Definition vmin (a b : V) : V := if leb b a then (if leb a b then a else b) else a.   (* Python min(a, b) *)

Record st := mkst { comp : pydict V nat; store : pydict nat (V * list V) }.

(* keys = set(f).union(g); components = {k: Component(k) for k in keys} *)
Definition cc_keys (f g : list V) : list V := set_union (py_set f) g.
Fixpoint init_from (i : nat) (ks : list V) : st :=
  match ks with
  | [] => mkst [] []
  | k :: t => let s := init_from (S i) t in mkst ((k, i) :: comp s) ((i, (k, [k])) :: store s)
  end.
Definition cc_init (f g : list V) : st := init_from 0 (cc_keys f g).

(* one iteration of `for fi, gi in zip(f, g)` *)
Definition cc_step (s : st) (e : V * V) : st :=
  let '(fi, gi) := e in
  match dict_get (comp s) fi, dict_get (comp s) gi with
  | Some a, Some b =>
    match dict_get (store s) a, dict_get (store s) b with
    | Some (ida, ia), Some (idb, ib) =>
      if eqb ida idb then s
      else
        (* len(component_f.items) >= len(component_g.items) -> merged = component_f *)
        let '(m, idm, im, idd, itd) :=
          if Nat.leb (List.length ib) (List.length ia) then (a, ida, ia, idb, ib) else (b, idb, ib, ida, ia) in
        let store' := dict_set (store s) m (vmin idm idd, set_union im itd) in
        let comp' := fold_left (fun c k => dict_set c k m) itd (comp s) in
        mkst comp' store'
    | _, _ => s
    end
  | _, _ => s
  end.

Definition cc_label (s : st) (k : V) : option V :=
  match dict_get (comp s) k with
  | Some a => match dict_get (store s) a with Some (i, _) => Some i | None => None end
  | None => None
  end.

Fixpoint all_some {A} (l : list (option A)) : option (list A) :=
  match l with
  | [] => Some []
  | Some x :: t => match all_some t with Some r => Some (x :: r) | None => None end
  | None :: _ => None
  end.

(* assignments = [components[k].id for k in f]   (None models a KeyError, which the theorem excludes) *)
Definition connected_components (f g : list V) : option (list V) :=
  let s := fold_left cc_step (combine f g) (cc_init f g) in
  all_some (map (cc_label s) f).
End CC.

(* specification vocabulary *)
Section Spec.
Context {V : Type}.
Inductive conn (E : list (V * V)) : V -> V -> Prop :=
  | conn_refl v : conn E v v
  | conn_edge a b : In (a, b) E -> conn E a b
  | conn_sym a b : conn E a b -> conn E b a
  | conn_trans a b c : conn E a b -> conn E b c -> conn E a c.

Record total_order (leb : V -> V -> bool) : Prop := {
  leb_refl : forall a, leb a a = true;
  leb_antisym : forall a b, leb a b = true -> leb b a = true -> a = b;
  leb_trans : forall a b c, leb a b = true -> leb b c = true -> leb a c = true;
  leb_total : forall a b, leb a b = true \/ leb b a = true }.
End Spec.
