(* Reference semantics of one extend step over column-oriented frames, abstract in how a new
   column is computed: `colfn e f` is the column an expression denotes on frame f (row-wise
   evaluation for ordinary extends, the window function over partition/order for windowed ones).
   The only assumption is that it depends on f only through the columns in `deps e ++ W`
   (W = the partition_by and order_by columns of the step). *)
From Coq Require Import List Bool Arith String.
Import ListNotations.
From DA Require Import Base.PyRT Base.Val.

Definition frame := pydict string (list val).

Section Ext.
Context {E : Type} (deps : E -> list string) (W : list string) (colfn : E -> frame -> list val).

Definition agree_on (D : list string) (f f' : frame) : Prop := forall c, In c D -> dict_get f c = dict_get f' c.
Definition colfn_local : Prop := forall e f f', agree_on (deps e ++ W) f f' -> colfn e f = colfn e f'.

(* simultaneous assignment: every expression is evaluated on the INPUT frame *)
Definition ext (ops : pydict string E) (f : frame) : frame :=
  fold_left (fun acc ke => dict_set acc (fst ke) (colfn (snd ke) f)) ops f.

(* expr_rep.get_columns_used: union of the column names mentioned by the expressions *)
Definition get_columns_used (ops : pydict string E) : list string := py_set (flat_map deps (dict_values ops)).
End Ext.
