(* Case driver for C13: the models of Model/ExprParse.v, ExprPrint.v, PyExpr.v against what the implementation
   was observed to do.  All comparisons are decided inside Coq. *)
From Coq Require Import List Bool String Ascii ZArith NArith QArith Qabs.
Import ListNotations.
From DA Require Import Base.Cases Model.PyExpr Model.ExprPrint Model.ExprParse Model.ExprSem.
Local Close Scope Q_scope.
Local Open Scope string_scope.
Local Open Scope bool_scope.
Local Open Scope list_scope.

Definition res_expr_eqb (a b : res expr) : bool :=
  match a, b with Ok x, Ok y => expr_eqb x y | Err, Err => true | _, _ => false end.
Definition opt_ltree_eqb (a b : option ltree) : bool :=
  match a, b with Some x, Some y => ltree_eqb x y | None, None => true | _, _ => false end.

(* observed value of an evaluation: a number (exact rational of the float / int), a bool, or "raised" *)
Inductive obs := ONum (q : Q) | OBool (b : bool) | ORaise.

(* |a - b| <= 1e-8 * max(|a|, |b|, 1) *)
Definition q_close (a b : Q) : bool :=
  let m := Qabs a in
  let m := if Qle_bool m (Qabs b) then Qabs b else m in
  let m := if Qle_bool m 1%Q then 1%Q else m in
  Qle_bool (Qabs (Qminus a b)) (Qmult (Qmake 1 100000000) m).

Definition obs_matches (o : obs) (v : option pval) : bool :=
  match o, v with
  | OBool b, Some (PBool b') => Bool.eqb b b'
  | ONum q, Some (PInt z) => q_close q (inject_Z z)
  | ONum q, Some (PFloat neg m) => q_close q (if neg then Qopp m else m)
  | _, _ => false
  end.

Inductive case :=
(* one expression text: its tokens; the lark tree (None: lark raised); whether that tree is inside the modelled
   fragment; data_def keys; the result of parse_by_lark; the lexed to_python() of that result *)
| CParse (toks : list tok) (tree : option ltree) (infrag : bool) (dd : list string)
         (parsed : res expr) (printed : list tok)
(* getattr(self, m)(args...) on the real classes *)
| CMethod (m : string) (self : expr) (args : list expr) (observed : res expr)
(* a.is_equal(b) *)
| CEqual (a b : expr) (observed : bool)
(* the real op_remap / factor_remap dictionaries *)
| CRemap (is_factor : bool) (entries : list (string * string))
(* value of the text on one operand assignment: Python's eval, and the library's evaluation of the parsed tree;
   `None` = that side was not run / is outside the compared domain *)
| CValue (tree : ltree) (dd : list string) (env : list (string * pval)) (python : option obs) (library : option obs).

Definition table_same (a b : list (string * string)) : bool :=
  Nat.eqb (List.length a) (List.length b)
  && forallb (fun kv => match assoc (fst kv) b with Some v => snd kv ==s v | None => false end) a.

Definition case_ok (c : cfg) (k : case) : bool :=
  match k with
  | CParse toks tree infrag dd parsed printed =>
      (* (a) the parser model against lark *)
      opt_ltree_eqb (lark_of toks) (if infrag then tree else None)
      (* (b) the walker model against the resulting Term tree *)
      && match tree with
         | Some t => if infrag then res_expr_eqb (parse_tree c dd t) parsed else true
         | None => true
         end
      (* (c) the printer model against to_python() *)
      && match parsed with
         | Ok e => list_eqb tok_eqb (to_python e) printed
         | Err => true
         end
  | CMethod m self args observed => res_expr_eqb (call_method c m self args) observed
  | CEqual a b observed => Bool.eqb (is_equal a b) observed
  | CRemap is_factor entries => table_same entries (if is_factor then factor_remap else op_remap)
  | CValue t dd env python library =>
      (* the reference semantics against CPython, the DSL semantics against the library; a model that has no
         value (outside the common domain) is not compared *)
      match python, py_meaning concrete_fsem env t with
      | Some o, Some v => obs_matches o (Some v)
      | _, _ => true
      end
      && match library, parse_tree c dd t with
         | Some o, Ok e => match eval concrete_fsem env e with Some v => obs_matches o (Some v) | None => true end
         | _, _ => true
         end
  end.

Definition check_cases (c : cfg) (cs : list case) : list nat := failing_idx (case_ok c) cs.

(* how many CValue cases had a model value on the Python / library side (reported as evidence of non-vacuity) *)
Definition count_valued (c : cfg) (cs : list case) : nat * nat :=
  fold_left (fun acc k =>
    match k with
    | CValue t dd env python library =>
        ((fst acc + match python, py_meaning concrete_fsem env t with Some _, Some _ => 1 | _, _ => 0 end)%nat,
         (snd acc + match library, parse_tree c dd t with
                    | Some _, Ok e => match eval concrete_fsem env e with Some _ => 1 | None => 0 end
                    | _, _ => 0 end)%nat)
    | _ => acc
    end) cs (0%nat, 0%nat).
