(* Reference semantics of data_algebra pipelines over row-oriented tables (Base/Val.v).
   Scalars: numbers are exact rationals (VNum, always Qred-normal), booleans, strings, null (= None = NaN).
   Every backend convention that differs between executors is a field of `flavor`; `fl_pandas`, `fl_sqlite`,
   `fl_postgres`, `fl_polars` are the conventions of the four executors (each validated against the real executor by the
   correspondence runs) and `fl_spec` is the specification: Pandas scalar conventions (the reference executor of C01)
   with the SQL join rule (null keys never match).  Grouping always treats null as a key value of its own. *)
From Coq Require Import List Bool Arith ZArith QArith String.
Import ListNotations.
From DA Require Import Base.PyRT Base.Val.
Local Open Scope string_scope.
Local Open Scope list_scope.

(* ------------------------------------------------------------------ expressions *)
Inductive expr :=
  | ECol (c : string)
  | EConst (v : val)
  | EOp (op : string) (args : list expr).

Fixpoint cols_used (e : expr) : list string :=
  match e with
  | ECol c => [c]
  | EConst _ => []
  | EOp _ args => (fix go (l : list expr) : list string := match l with [] => [] | a :: t => cols_used a ++ go t end) args
  end.

(* ------------------------------------------------------------------ scalar functions *)
Definition qn (q : Q) : val := VNum (Qred q).
Definition num_of (v : val) : option Q :=
  match v with VNum q => Some q | VBool true => Some 1%Q | VBool false => Some 0%Q | VInt z => Some (inject_Z z) | _ => None end.
Definition is_null (v : val) : bool := match v with VNull => true | _ => false end.
Definition truth (v : val) : bool :=
  match v with VBool b => b | VNum q => negb (Qeq_bool q 0) | VInt z => negb (Z.eqb z 0) | _ => false end.

Record flavor := mkfl {
  f_cmp3 : bool;               (* a comparison with a null operand is null (SQL, Polars); Pandas: False, and True for != *)
  f_logic3 : bool;             (* and / or are Kleene three-valued (SQL, Polars); Pandas: a null operand counts as False *)
  f_minmax_ignore_null : bool; (* maximum / minimum ignore a null operand (SQL templates, Polars); Pandas propagates it *)
  f_fminmax_propagate : bool;  (* fmax / fmin propagate a null operand (SQL templates); Pandas and Polars ignore it *)
  f_empty_agg_null : bool;     (* SUM of no non-null values, and count / size over no rows at all, are null (SQL, Polars); Pandas: 0 *)
  f_running_carry : bool;      (* cumsum/cummax/cummin at a null row give the running value (SQL window); Pandas gives null *)
  f_nulls_first_asc : bool;    (* ascending sort puts nulls first (SQLite, Polars); Pandas and PostgreSQL put them last *)
  f_nulls_first_desc : bool;   (* descending sort puts nulls first (PostgreSQL) *)
  f_join_null_match : bool     (* a null join key matches a null join key (pandas.merge); never in SQL *)
}.
Definition fl_pandas   := mkfl false false false false false false false false false.   (* null join keys no longer match on Pandas since the join fix in /repo (null keys never match) *)
Definition fl_spec     := mkfl false false false false false false false false false.
Definition fl_sqlite   := mkfl true  true  false false true  true  true  false false.   (* maximum/minimum propagate, fmax/fmin skip a NULL since /repo 9699787 *)
Definition fl_postgres := mkfl true  true  false false true  true  false true  false.
Definition fl_polars   := mkfl true  true  false false true  false true  true  false.   (* maximum/minimum propagate a missing operand since the Polars fix in /repo *)

Definition num2 (f : Q -> Q -> Q) (a b : val) : val :=
  match num_of a, num_of b with Some x, Some y => qn (f x y) | _, _ => VNull end.

Inductive cmp := CEq | CNe | CLt | CLe | CGt | CGe.
Definition cmp_num (c : cmp) (x y : Q) : bool :=
  match c with
  | CEq => Qeq_bool x y | CNe => negb (Qeq_bool x y)
  | CLt => Qle_bool x y && negb (Qeq_bool x y) | CLe => Qle_bool x y
  | CGt => Qle_bool y x && negb (Qeq_bool x y) | CGe => Qle_bool y x
  end.
Definition cmp_str (c : cmp) (x y : string) : bool :=
  match c with
  | CEq => String.eqb x y | CNe => negb (String.eqb x y)
  | CLt => String.ltb x y | CLe => String.leb x y
  | CGt => String.ltb y x | CGe => String.leb y x
  end.
(* Pandas: any comparison with a null operand is False, except != which is True; SQL / Polars: null *)
Definition compare_vals (fl : flavor) (c : cmp) (a b : val) : val :=
  match a, b with
  | VNull, _ | _, VNull => if f_cmp3 fl then VNull else VBool (match c with CNe => true | _ => false end)
  | VStr x, VStr y => VBool (cmp_str c x y)
  | _, _ => match num_of a, num_of b with
            | Some x, Some y => VBool (cmp_num c x y)
            | _, _ => VBool (match c with CNe => true | _ => false end)
            end
  end.

Definition qmax (x y : Q) : Q := if Qle_bool x y then y else x.
Definition qmin (x y : Q) : Q := if Qle_bool x y then x else y.
Definition qabs (x : Q) : Q := if Qle_bool 0 x then x else Qopp x.

(* Kleene connectives *)
Definition and3 (a b : val) : val :=
  if (negb (is_null a) && negb (truth a)) || (negb (is_null b) && negb (truth b)) then VBool false
  else if is_null a || is_null b then VNull else VBool true.
Definition or3 (a b : val) : val :=
  if (negb (is_null a) && truth a) || (negb (is_null b) && truth b) then VBool true
  else if is_null a || is_null b then VNull else VBool false.
Definition ignore_null2 (f : Q -> Q -> Q) (a b : val) : val :=
  if is_null a then b else if is_null b then a else num2 f a b.

Definition scalar_op (fl : flavor) (op : string) (args : list val) : val :=
  match op, args with
  | "+", [a; b] => num2 Qplus a b
  | "-", [a; b] => num2 Qminus a b
  | "*", [a; b] => num2 Qmult a b
  | "-", [a] => match num_of a with Some x => qn (Qopp x) | None => VNull end
  | "abs", [a] => match num_of a with Some x => qn (qabs x) | None => VNull end
  | "==", [a; b] => compare_vals fl CEq a b
  | "!=", [a; b] => compare_vals fl CNe a b
  | "<", [a; b] => compare_vals fl CLt a b
  | "<=", [a; b] => compare_vals fl CLe a b
  | ">", [a; b] => compare_vals fl CGt a b
  | ">=", [a; b] => compare_vals fl CGe a b
  | "and", [a; b] => if f_logic3 fl then and3 a b else VBool (truth a && truth b)
  | "or", [a; b] => if f_logic3 fl then or3 a b else VBool (truth a || truth b)
  | "is_null", [a] => VBool (is_null a)
  | "is_bad", [a] => VBool (is_null a)
  | "coalesce", [a; b] => if is_null a then b else a
  | "if_else", [c; a; b] => if is_null c then VNull else if truth c then a else b
  | "maximum", [a; b] => if f_minmax_ignore_null fl then ignore_null2 qmax a b else num2 qmax a b
  | "minimum", [a; b] => if f_minmax_ignore_null fl then ignore_null2 qmin a b else num2 qmin a b
  | "fmax", [a; b] => if f_fminmax_propagate fl then num2 qmax a b else ignore_null2 qmax a b
  | "fmin", [a; b] => if f_fminmax_propagate fl then num2 qmin a b else ignore_null2 qmin a b
  | _, _ => VNull
  end.

Fixpoint eval_expr (fl : flavor) (cs : list string) (r : list val) (e : expr) : val :=
  match e with
  | ECol c => get cs r c
  | EConst v => v
  | EOp op args => scalar_op fl op ((fix go (l : list expr) : list val := match l with [] => [] | a :: t => eval_expr fl cs r a :: go t end) args)
  end.

(* ------------------------------------------------------------------ aggregates and window functions *)
Definition nums (vs : list val) : list Q := flat_map (fun v => match num_of v with Some q => [q] | None => [] end) vs.
Definition qsum (l : list Q) : Q := fold_left Qplus l 0%Q.
Definition qfold1 (f : Q -> Q -> Q) (l : list Q) : option Q :=
  match l with [] => None | x :: t => Some (fold_left f t x) end.
Definition opt_num (o : option Q) : val := match o with Some q => qn q | None => VNull end.

Definition agg_fn (fl : flavor) (op : string) (vs : list val) : val :=
  match op with
  | "sum" => match nums vs with
             | [] => if f_empty_agg_null fl then VNull else qn 0      (* Pandas: sum of no values is 0; SQL: NULL *)
             | l => qn (qsum l)
             end
  | "mean" => match nums vs with [] => VNull | l => qn (Qdiv (qsum l) (inject_Z (Z.of_nat (List.length l)))) end
  | "min" => opt_num (qfold1 qmin (nums vs))
  | "max" => opt_num (qfold1 qmax (nums vs))
  | "count" => match vs with
               | [] => if f_empty_agg_null fl then VNull else qn 0
               | _ => qn (inject_Z (Z.of_nat (List.length (filter (fun v => negb (is_null v)) vs))))
               end
  | "size" | "_size" => match vs with
                        | [] => if f_empty_agg_null fl then VNull else qn 0
                        | _ => qn (inject_Z (Z.of_nat (List.length vs)))
                        end
  | _ => VNull
  end.

(* running fold that skips nulls; at a null position the output is null (pandas cumsum / cummax / cummin) or,
   with carry, the value accumulated so far (SQL SUM/MAX/MIN ... OVER (ORDER BY ...)) *)
Fixpoint running (carry : bool) (f : Q -> Q -> Q) (acc : option Q) (vs : list val) : list val :=
  match vs with
  | [] => []
  | v :: t => match num_of v with
              | None => (if carry then opt_num acc else VNull) :: running carry f acc t
              | Some x => let a := match acc with None => x | Some y => f y x end in qn a :: running carry f (Some a) t
              end
  end.
Fixpoint shift_right (n : nat) (vs : list val) : list val :=
  match n with O => vs | S k => VNull :: shift_right k (removelast vs) end.
Definition shift_left (n : nat) (vs : list val) : list val := skipn n vs ++ repeat VNull (Nat.min n (List.length vs)).
Fixpoint number_from (i : nat) (vs : list val) : list val :=
  match vs with [] => [] | _ :: t => qn (inject_Z (Z.of_nat i)) :: number_from (S i) t end.

(* ---- window functions added for C27 (additive: names that used to fall through to the aggregate default, i.e. to VNull) *)
(* first / last: the first / last NON-NULL value of the ordered partition (pandas GroupBy.first / last), else null *)
Definition first_nonnull (vs : list val) : val :=
  match filter (fun v => negb (is_null v)) vs with [] => VNull | v :: _ => v end.
Definition last_nonnull (vs : list val) : val := first_nonnull (rev vs).
(* ffill: a null takes the closest earlier non-null value; bfill: the closest later one *)
Fixpoint ffill_from (acc : val) (vs : list val) : list val :=
  match vs with [] => [] | v :: t => let a := if is_null v then acc else v in a :: ffill_from a t end.
Fixpoint bfill_list (vs : list val) : list val :=
  match vs with
  | [] => []
  | v :: t => let r := bfill_list t in (if is_null v then match r with [] => VNull | x :: _ => x end else v) :: r
  end.
(* rank: average rank of the VALUE among the non-null values of the partition (pandas / polars default method); null stays null *)
Definition rank_val (vs : list val) (v : val) : val :=
  match num_of v with
  | None => VNull
  | Some x => let xs := nums vs in
              let lt := List.length (filter (fun y => Qle_bool y x && negb (Qeq_bool y x)) xs) in
              let eq := List.length (filter (fun y => Qeq_bool y x) xs) in
              qn (inject_Z (Z.of_nat lt) + (inject_Z (Z.of_nat eq) + 1) / 2)%Q
  end.
(* group aggregates used only as window functions: median, nunique (nulls not counted), var (sample variance) *)
Fixpoint qinsert (x : Q) (l : list Q) : list Q :=
  match l with [] => [x] | y :: t => if Qle_bool x y then x :: l else y :: qinsert x t end.
Definition qsort (l : list Q) : list Q := fold_right qinsert [] l.
Definition median_val (vs : list val) : val :=
  let s := qsort (nums vs) in
  let n := List.length s in
  match n with
  | O => VNull
  | _ => if Nat.odd n then qn (nth (Nat.div2 n) s 0%Q)
         else qn ((nth (Nat.div2 n - 1)%nat s 0%Q + nth (Nat.div2 n) s 0%Q) / 2)%Q
  end.
Fixpoint qdistinct (l : list Q) : list Q :=
  match l with [] => [] | x :: t => x :: filter (fun y => negb (Qeq_bool x y)) (qdistinct t) end.
Definition nunique_val (vs : list val) : val := qn (inject_Z (Z.of_nat (List.length (qdistinct (nums vs))))).
Definition var_val (vs : list val) : val :=
  let xs := nums vs in
  let n := List.length xs in
  match n with
  | O | 1%nat => VNull
  | _ => let m := Qdiv (qsum xs) (inject_Z (Z.of_nat n)) in
         qn (Qdiv (qsum (map (fun x => ((x - m) * (x - m))%Q) xs)) (inject_Z (Z.of_nat (n - 1)%nat)))
  end.

(* value of a window function for every position of an ORDERED partition; extra = the literal arguments after the first *)
Definition win_fn (fl : flavor) (op : string) (extra : list val) (vs : list val) : list val :=
  match op with
  | "cumsum" => running (f_running_carry fl) Qplus None vs
  | "cummax" => running (f_running_carry fl) qmax None vs
  | "cummin" => running (f_running_carry fl) qmin None vs
  | "cumprod" => running false Qmult None vs               (* Pandas only: no SQL backend here has a running product *)
  | "cumcount" => number_from 0 vs                          (* pandas GroupBy.cumcount: 0-based position (the catalogue marks SQL as differing) *)
  | "_count" => number_from 1 vs                            (* pandas: cumcount() + 1 *)
  | "rank" => map (rank_val vs) vs
  | "first" => let a := first_nonnull vs in map (fun _ => a) vs
  | "last" => let a := last_nonnull vs in map (fun _ => a) vs
  | "ffill" => ffill_from VNull vs
  | "bfill" => bfill_list vs
  | "median" => let a := median_val vs in map (fun _ => a) vs
  | "nunique" => let a := nunique_val vs in map (fun _ => a) vs
  | "var" => let a := var_val vs in map (fun _ => a) vs
  | "_row_number" | "row_number" => number_from 1 vs
  | "shift" =>
      match extra with
      | [] => shift_right 1 vs
      | VNum q :: _ => let z := Qnum q in if Z.leb 0 z then shift_right (Z.to_nat z) vs else shift_left (Z.to_nat (Z.opp z)) vs
      | _ => map (fun _ => VNull) vs
      end
  | _ => let a := agg_fn fl op vs in map (fun _ => a) vs         (* group aggregate broadcast to every row *)
  end.

(* ------------------------------------------------------------------ orders *)
(* total preorder on NON-NULL values used by sorts: numbers by value, then strings by code point (nulls: see v_le_dir) *)
Definition v_le (a b : val) : bool :=
  match a, b with
  | _, VNull => true
  | VNull, _ => false
  | VStr x, VStr y => String.leb x y
  | VStr _, _ => false
  | _, VStr _ => true
  | _, _ => match num_of a, num_of b with Some x, Some y => Qle_bool x y | _, _ => true end
  end.
Definition v_eqv (a b : val) : bool :=          (* same group key / same sort key: null = null *)
  match a, b with
  | VNull, VNull => true
  | VStr x, VStr y => String.eqb x y
  | VNull, _ | _, VNull | VStr _, _ | _, VStr _ => false
  | _, _ => match num_of a, num_of b with Some x, Some y => Qeq_bool x y | _, _ => false end
  end.
(* comparison for one sort key: nf = nulls come first; desc = descending on the non-null values *)
Definition v_le_dir (nf desc : bool) (a b : val) : bool :=
  match a, b with
  | VNull, VNull => true
  | VNull, _ => nf
  | _, VNull => negb nf
  | _, _ => if desc then v_le b a else v_le a b
  end.
Definition nulls_first (fl : flavor) (desc : bool) : bool := if desc then f_nulls_first_desc fl else f_nulls_first_asc fl.

(* lexicographic comparison of rows on keys (column, descending?) *)
Fixpoint row_le (fl : flavor) (cs : list string) (keys : list (string * bool)) (r1 r2 : list val) : bool :=
  match keys with
  | [] => true
  | (c, d) :: t => let a := get cs r1 c in let b := get cs r2 c in
                   if v_eqv a b then row_le fl cs t r1 r2 else v_le_dir (nulls_first fl d) d a b
  end.

Section Sort.
  Context {A : Type} (le : A -> A -> bool).
  Fixpoint insert_sorted (x : A) (l : list A) : list A :=
    match l with [] => [x] | y :: t => if le x y then x :: l else y :: insert_sorted x t end.
  (* stable: equal elements keep their input order (fold_right inserts from the back, insertion stops at the first le) *)
  Definition stable_sort (l : list A) : list A := fold_right insert_sorted [] l.
End Sort.

Definition key_of (cs : list string) (ks : list string) (r : list val) : list val := map (get cs r) ks.
Fixpoint keys_eqv (a b : list val) : bool :=
  match a, b with [], [] => true | x :: t, y :: u => v_eqv x y && keys_eqv t u | _, _ => false end.
(* distinct keys in first-occurrence order *)
Fixpoint distinct_keys (ks : list (list val)) : list (list val) :=
  match ks with
  | [] => []
  | k :: t => k :: filter (fun k2 => negb (keys_eqv k k2)) (distinct_keys t)
  end.

(* ------------------------------------------------------------------ steps on tables *)
Definition set_cell (cs : list string) (r : list val) (c : string) (v : val) : list val :=
  match index_of c cs with Some i => set_nth i v r | None => r ++ [v] end.
Definition ext_cols (cs : list string) (ks : list string) : list string := fold_left add_end ks cs.

(* row-wise extend: every expression is evaluated on the OLD row *)
Definition extend_row (fl : flavor) (cs : list string) (ops : list (string * expr)) (r : list val) : list val :=
  fst (fold_left (fun acc ke => let '(row, ccs) := acc in
                                 (set_cell ccs row (fst ke) (eval_expr fl cs r (snd ke)), add_end ccs (fst ke)))
                 ops (r, cs)).
Definition sem_extend (fl : flavor) (ops : list (string * expr)) (t : table) : table :=
  mktable (ext_cols (cols t) (map fst ops)) (map (extend_row fl (cols t) ops) (rows t)).

Record window := mkwin { w_part : list string; w_order : list string; w_rev : list string }.

(* a window expression is `fn(arg, literals...)` or `fn()`; arg is a column or a constant *)
Definition win_parts (e : expr) : option (string * option expr * list val) :=
  match e with
  | EOp op [] => Some (op, None, [])
  | EOp op (a :: rest) => Some (op, Some a, flat_map (fun x => match x with EConst v => [v] | _ => [] end) rest)
  | _ => None
  end.

(* rows tagged with their original position *)
Fixpoint tag_from (i : nat) (rs : list (list val)) : list (nat * list val) :=
  match rs with [] => [] | r :: t => (i, r) :: tag_from (S i) t end.

Definition window_column (fl : flavor) (w : window) (t : table) (e : expr) : list (nat * val) :=
  let cs := cols t in
  let tagged := tag_from 0 (rows t) in
  let okeys := map (fun c => (c, mem c (w_rev w))) (w_order w) in
  let groups := distinct_keys (map (fun r => key_of cs (w_part w) r) (rows t)) in
  flat_map (fun k =>
              let part := filter (fun ir => keys_eqv k (key_of cs (w_part w) (snd ir))) tagged in
              let sorted := stable_sort (fun a b => row_le fl cs okeys (snd a) (snd b)) part in
              match win_parts e with
              | Some (op, arg, extra) =>
                  let vs := map (fun ir => match arg with Some a => eval_expr fl cs (snd ir) a | None => VBool true end) sorted in
                  combine (map fst sorted) (win_fn fl op extra vs)
              | None => map (fun ir => (fst ir, VNull)) sorted
              end) groups.

Definition lookup_pos (l : list (nat * val)) (i : nat) : val :=
  match find (fun p => Nat.eqb (fst p) i) l with Some p => snd p | None => VNull end.

Definition sem_wextend (fl : flavor) (ops : list (string * expr)) (w : window) (t : table) : table :=
  let wcols := map (fun ke => (fst ke, window_column fl w t (snd ke))) ops in
  mktable (ext_cols (cols t) (map fst ops))
          (map (fun ir => fst (fold_left (fun acc kc => let '(row, ccs) := acc in
                                                        (set_cell ccs row (fst kc) (lookup_pos (snd kc) (fst ir)), add_end ccs (fst kc)))
                                         wcols (snd ir, cols t)))
               (tag_from 0 (rows t))).

(* project: one row per distinct key (null is a key), exactly one row without keys *)
Definition agg_parts (e : expr) : option (string * option expr) :=
  match e with
  | EOp op [] => Some (op, None)
  | EOp op [a] => Some (op, Some a)
  | _ => None
  end.
Definition agg_value (fl : flavor) (cs : list string) (grp : list (list val)) (e : expr) : val :=
  match agg_parts e with
  | Some (op, arg) => agg_fn fl op (map (fun r => match arg with Some a => eval_expr fl cs r a | None => VBool true end) grp)
  | None => VNull
  end.
Definition sem_project (fl : flavor) (ops : list (string * expr)) (gb : list string) (t : table) : table :=
  let cs := cols t in
  let groups := match gb with [] => [[]] | _ => distinct_keys (map (key_of cs gb) (rows t)) end in
  mktable (gb ++ map fst ops)
          (map (fun k => let grp := filter (fun r => keys_eqv k (key_of cs gb r)) (rows t) in
                         k ++ map (fun ke => agg_value fl cs grp (snd ke)) ops) groups).

Definition sem_select_rows (fl : flavor) (e : expr) (t : table) : table :=
  mktable (cols t) (filter (fun r => truth (eval_expr fl (cols t) r e)) (rows t)).
Definition sem_select_cols (cs : list string) (t : table) : table :=
  mktable cs (map (fun r => map (get (cols t) r) cs) (rows t)).
Definition sem_drop_cols (ds : list string) (t : table) : table :=
  sem_select_cols (filter (fun c => negb (mem c ds)) (cols t)) t.
(* rename: m maps NEW name -> OLD name *)
Definition rename_col (m : list (string * string)) (c : string) : string :=
  match find (fun no => String.eqb (snd no) c) m with Some no => fst no | None => c end.
Definition sem_rename (m : list (string * string)) (t : table) : table := mktable (map (rename_col m) (cols t)) (rows t).
Definition sem_order (fl : flavor) (cs rev : list string) (limit : option nat) (t : table) : table :=
  let keys := map (fun c => (c, mem c rev)) cs in
  let sorted := stable_sort (row_le fl (cols t) keys) (rows t) in
  mktable (cols t) (match limit with Some n => firstn n sorted | None => sorted end).

(* natural join on the key pairs (on_a[i], on_b[i]); every output column present on both sides is coalesced left-first *)
Inductive jointype := JInner | JLeft | JRight | JFull.
(* nm = "null keys match" : false is the SQL specification; true is what pandas.merge does *)
Definition keys_match (nm : bool) (ka kb : list val) : bool := (nm || negb (existsb is_null ka)) && keys_eqv ka kb.
Definition sem_join (nm : bool) (on_a on_b : list string) (jt : jointype) (a b : table) : table :=
  let ca := cols a in let cb := cols b in
  let out := ca ++ filter (fun c => negb (mem c ca)) cb in
  let mk (ra rb : option (list val)) : list val :=
    map (fun c => let va := match ra with Some r => if mem c ca then get ca r c else VNull | None => VNull end in
                  let vb := match rb with Some r => if mem c cb then get cb r c else VNull | None => VNull end in
                  if is_null va then vb else va) out in
  let matched := flat_map (fun ra => flat_map (fun rb => if keys_match nm (key_of ca on_a ra) (key_of cb on_b rb) then [mk (Some ra) (Some rb)] else []) (rows b)) (rows a) in
  let left_only := flat_map (fun ra => if existsb (fun rb => keys_match nm (key_of ca on_a ra) (key_of cb on_b rb)) (rows b) then [] else [mk (Some ra) None]) (rows a) in
  let right_only := flat_map (fun rb => if existsb (fun ra => keys_match nm (key_of ca on_a ra) (key_of cb on_b rb)) (rows a) then [] else [mk None (Some rb)]) (rows b) in
  mktable out (matched ++ (match jt with JLeft | JFull => left_only | _ => [] end) ++ (match jt with JRight | JFull => right_only | _ => [] end)).

Definition sem_concat (idcol : option string) (an bn : string) (a b : table) : table :=
  let ca := cols a in
  let rb := map (fun r => map (get (cols b) r) ca) (rows b) in
  match idcol with
  | None => mktable ca (rows a ++ rb)
  | Some c => mktable (ca ++ [c]) (map (fun r => r ++ [VStr an]) (rows a) ++ map (fun r => r ++ [VStr bn]) rb)
  end.

(* ------------------------------------------------------------------ pipelines *)
Inductive op :=
  | OTable (name : string) (tcols : list string)
  | OExtend (src : op) (ops : list (string * expr)) (windowed : bool) (w : window)
  | OProject (src : op) (ops : list (string * expr)) (gb : list string)
  | OSelectRows (src : op) (e : expr)
  | OSelectCols (src : op) (cs : list string)
  | ODropCols (src : op) (cs : list string)
  | ORename (src : op) (m : list (string * string))                      (* m : NEW name -> OLD name *)
  | OMapCols (src : op) (m : list (string * string)) (dels : list string)  (* m : NEW name -> OLD name, then delete dels *)
  | OOrder (src : op) (cs rev : list string) (limit : option nat)
  | OJoin (a b : op) (on_a on_b : list string) (jt : jointype)
  | OConcat (a b : op) (idcol : option string) (an bn : string).

Definition env := list (string * table).

(* sem_gen fl: the meaning of a pipeline under the conventions fl *)
Fixpoint sem_gen (fl : flavor) (p : op) (e : env) : option table :=
  let sem := sem_gen fl in
  match p with
  | OTable n cs => match dict_get e n with Some t => Some (sem_select_cols cs t) | None => None end
  | OExtend s ops wd w => option_map (if wd then sem_wextend fl ops w else sem_extend fl ops) (sem s e)
  | OProject s ops gb => option_map (sem_project fl ops gb) (sem s e)
  | OSelectRows s x => option_map (sem_select_rows fl x) (sem s e)
  | OSelectCols s cs => option_map (sem_select_cols cs) (sem s e)
  | ODropCols s cs => option_map (sem_drop_cols cs) (sem s e)
  | ORename s m => option_map (sem_rename m) (sem s e)
  | OMapCols s m dels => option_map (fun t => sem_drop_cols dels (sem_rename m t)) (sem s e)
  | OOrder s cs rev lim => option_map (sem_order fl cs rev lim) (sem s e)
  | OJoin a b on_a on_b jt => match sem a e, sem b e with Some ta, Some tb => Some (sem_join (f_join_null_match fl) on_a on_b jt ta tb) | _, _ => None end
  | OConcat a b idc an bn => match sem a e, sem b e with Some ta, Some tb => Some (sem_concat idc an bn ta tb) | _, _ => None end
  end.

Definition sem := sem_gen fl_spec.

(* declared columns of a pipeline (the builders' bookkeeping) *)
Fixpoint column_names (p : op) : list string :=
  match p with
  | OTable _ cs => cs
  | OExtend s ops _ _ => ext_cols (column_names s) (map fst ops)
  | OProject _ ops gb => gb ++ map fst ops
  | OSelectRows s _ => column_names s
  | OSelectCols _ cs => cs
  | ODropCols s ds => filter (fun c => negb (mem c ds)) (column_names s)
  | ORename s m => map (rename_col m) (column_names s)
  | OMapCols s m dels => filter (fun c => negb (mem c dels)) (map (rename_col m) (column_names s))
  | OOrder s _ _ _ => column_names s
  | OJoin a b _ _ _ => column_names a ++ filter (fun c => negb (mem c (column_names a))) (column_names b)
  | OConcat a _ idc _ _ => column_names a ++ (match idc with Some c => [c] | None => [] end)
  end.
