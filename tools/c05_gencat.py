"""Regenerate coq/theories/Model/ScalarCatalog.v (the FROZEN copy of the method catalogue and key sets used by C05) from /repo.
Run only when the catalogue legitimately changes:  PYTHONPATH=/repo /venv/bin/python tools/c05_gencat.py
The C05 check never runs this; it compares the frozen file with /repo on every run."""
import warnings; warnings.simplefilter("ignore")
import data_algebra.op_catalog as c, data_algebra.sql_model as sm, data_algebra.SQLite as sq, data_algebra.PostgreSQL as pg
mt = c.methods_table
def cs(s):
    assert '"' not in s or True
    return '"' + s.replace('"', '""') + '"'
rows = []
for i in range(mt.shape[0]):
    r = mt.loc[i]
    rows.append("  (%s, %s, %s, %s, %s, %s)" % (cs(r["expression"]), cs(r["op"]), cs(r["op_class"]), cs(r["Pandas"]), cs(r["SQLiteModel"]), cs(r["PostgreSQLModel"])))
out = []
out.append("(* C05 -- FROZEN copy of data_algebra/op_catalog.py methods_table (expression, op, op_class, Pandas, SQLiteModel,\n   PostgreSQLModel) and of the key sets of the formatter tables.  The harness reads the same tables from /repo on every\n   run and compares them with these lists inside Coq: a new, removed or re-marked row is a correspondence break. *)")
out.append("From Coq Require Import List String.\nImport ListNotations.\nLocal Open Scope string_scope.\n")
out.append("Definition catrow := (string * string * string * string * string * string)%type.")
out.append("Definition catalog_rows : list catrow := [\n" + ";\n".join(rows) + "\n].\n")
def keys(name, d):
    return "Definition %s : list string := [%s].\n" % (name, "; ".join(cs(k) for k in sorted(d)))
out.append(keys("keys_db_expr_formatters", sm.db_expr_formatters))
out.append(keys("keys_SQLite_formatters", sq.SQLite_formatters))
out.append(keys("keys_PostgreSQL_formatters", pg.PostgreSQL_formatters))
out.append("Definition db_default_op_replacements : list (string * string) := [%s].\n" % "; ".join("(%s, %s)" % (cs(k), cs(v)) for k, v in sorted(sm.db_default_op_replacements.items())))
p = pg.PostgreSQLModel()
out.append("Definition pg_op_replacements : list (string * string) := [%s].\n" % "; ".join("(%s, %s)" % (cs(k), cs(v)) for k, v in sorted(p.op_replacements.items())))
open("/verif/coq/theories/Model/ScalarCatalog.v", "w").write("\n".join(out))
import data_algebra.data_model, data_algebra.polars_model as pm
pdm = data_algebra.data_model.default_data_model()
extra = []
extra.append(keys("keys_pandas_impl_map", pdm.impl_map))
plm = pm.PolarsModel()
for ar in (0, 1, 2, 3):
    extra.append(keys("keys_polars_extend_%d" % ar, plm.extend_expr_impl_map[ar]))
extra.append(keys("keys_polars_arbitrary_arity", plm.impl_map_arbitrary_arity))
extra.append(keys("keys_polars_literals_unpacked", plm.want_literals_unpacked))

# expression -> (method key, literal flags) for the class-e rows, as data_algebra's own parser sees them
from data_algebra.data_ops import TableDescription
import data_algebra.expr_rep as er
DATE_OPS = {"base_Sunday", "date_diff", "datetime_to_date", "dayofmonth", "dayofweek", "dayofyear", "format_date", "format_datetime",
            "month", "parse_date", "parse_datetime", "quarter", "timestamp_diff", "weekofyear", "year"}
cols = ["x","y","z","a","b","g","s2","q","row_id"]
t = TableDescription(table_name="d", column_names=cols)
ek = []
for i in range(mt.shape[0]):
    r = mt.loc[i]
    if r["op_class"] != "e" or r["op"] in DATE_OPS or r["op"] == "sum":
        continue
    exx = t.extend({"r": r["expression"]}).ops["r"]
    a = list(exx.args)
    if exx.op == "mapv":
        a = [a[0], a[2], a[1]]
    lits, nested = [], False
    for x in a:
        if isinstance(x, er.ColumnReference):
            lits.append(False)
        elif isinstance(x, er.Value):
            lits.append(True)
        elif isinstance(x, er.ListTerm):
            lits += [True] * len(x.value)
        elif isinstance(x, er.DictTerm):
            lits += [True] * (2 * len(x.value))
        else:
            nested = True
    if nested:
        continue
    ek.append("  (%s, (%s, [%s]))" % (cs(r["expression"]), cs(exx.op), "; ".join("true" if l else "false" for l in lits)))
extra.append("(* one-method class-e expressions (date/time family and the nested concat example excluded): expression -> (method, literal flags) *)")
extra.append("Definition expr_keys : list (string * (string * list bool)) := [\n" + ";\n".join(ek) + "\n].\n")
open("/verif/coq/theories/Model/ScalarCatalog.v", "a").write("\n" + "\n".join(extra))
