#!/venv/bin/python
"""py2v: fail-closed translator from a small Python subset to Gallina over DA.Base.PyRT.

Usage:  py2v.py <target> [--repo /repo] [--out file]     (targets: see TARGETS)
        py2v.py --selftest

Every construct outside the enumerated subset raises Unsupported, which the
caller reports as `UNSUPPORTED <file>:<line> <construct>` (a broken proof
obligation).  Types are tracked only as far as needed to pick the PyRT
operation (`in` on a dict vs. a list vs. an OrderedSet).

Type tags:  'oset' OrderedSet record | 'list' | 'set' | 'dict' | 'opt:<t>' |
            'str' | 'bool' | 'nat' | 'Z' | 'any' | 'unit'
"""
import ast, hashlib, os, sys, json

KEYWORDS = {"at", "as", "in", "end", "fix", "fun", "if", "then", "else", "let", "match", "with", "return",
            "Type", "Set", "Prop", "forall", "exists", "using", "for", "where", "cofix"}


class Unsupported(Exception):
    def __init__(self, node, what):
        self.line = getattr(node, "lineno", 0)
        self.what = what
        super().__init__(f"line {self.line}: {what}")


def cname(n):
    return n + "_" if n in KEYWORDS else n


def coq_string(s):
    if all(32 <= ord(c) < 127 and c != '"' for c in s):
        return '"%s"%%string' % s
    bs = s.encode("utf-8")
    return "(bs [%s]%%N)" % ";".join(str(b) for b in bs)


class Fn:
    """Translation of one function."""

    def __init__(self, mod, fdef, cfg, cls=None):
        self.mod = mod          # Module translator (for lookups)
        self.fdef = fdef
        self.cfg = cfg          # per function config
        self.cls = cls
        self.mode = cfg.get("mode", "pure")   # 'pure' | 'option'
        self.notes = []

    # ---------- helpers
    def ret(self, term):
        if self.cfg.get("ret_optional"):      # Python Optional[T] result: None | value
            term = "None" if term == "None" else f"Some ({term})"
        return f"Some ({term})" if self.mode == "option" else term

    def fail(self, node, why):
        if self.mode == "option":
            return "None"
        raise Unsupported(node, f"{why} in a pure-mode function")

    # ---------- expressions
    def expr(self, e, env):
        m = getattr(self, "e_" + type(e).__name__, None)
        if m is None:
            raise Unsupported(e, f"expression {type(e).__name__}")
        return m(e, env)

    def e_Name(self, e, env):
        if e.id in env:
            return cname(e.id), env[e.id]
        if e.id in self.mod.consts:
            return self.mod.consts[e.id]
        raise Unsupported(e, f"unknown name {e.id}")

    def e_Constant(self, e, env):
        v = e.value
        if v is None:
            return "None", "none"
        if v is True:
            return "true", "bool"
        if v is False:
            return "false", "bool"
        if isinstance(v, str):
            return coq_string(v), "str"
        if isinstance(v, int):
            return f"{v}%nat", "nat"
        raise Unsupported(e, f"constant {v!r}")

    def e_Attribute(self, e, env):
        sa = self.cfg.get("self_attrs", {})
        if isinstance(e.value, ast.Name) and e.value.id == "self" and e.attr in sa:
            return cname(e.attr), sa[e.attr][1]
        if isinstance(e.value, ast.Name) and e.value.id == "self" and self.cls:
            fields = self.mod.cfg["classes"][self.cls]["fields"]
            if e.attr in fields:
                return f"({self.cls}_{e.attr} self)", fields[e.attr][1]
        raise Unsupported(e, f"attribute .{e.attr}")

    def dotted(self, f):
        parts = []
        while isinstance(f, ast.Attribute):
            parts.append(f.attr)
            f = f.value
        if isinstance(f, ast.Name):
            parts.append(f.id)
            return ".".join(reversed(parts))
        return None

    def iter_of(self, e, env):
        """term for iterating over e as a list"""
        t, ty = self.expr(e, env)
        if ty == "oset":
            return f"(OrderedSet___iter__ {t})"
        if ty in ("list", "set"):
            return t
        if ty == "dict":
            return f"(dict_keys {t})"
        raise Unsupported(e, f"iteration over type {ty}")

    def comp(self, e, env, elt_fn):
        if len(e.generators) != 1:
            raise Unsupported(e, "comprehension with several generators")
        g = e.generators[0]
        if g.is_async:
            raise Unsupported(e, "async comprehension")
        it = self.iter_of(g.iter, env)
        env2 = dict(env)
        if isinstance(g.target, ast.Name):
            pat = cname(g.target.id)
            env2[g.target.id] = self.cfg.get("elem", {}).get(g.target.id, "any")
        else:
            raise Unsupported(g.target, "comprehension target")
        for c in g.ifs:
            ct, _ = self.expr(c, env2)
            it = f"(filter (fun {pat} => {ct}) {it})"
        return it, pat, env2

    def e_ListComp(self, e, env):
        it, pat, env2 = self.comp(e, env, None)
        if isinstance(e.elt, ast.Name) and cname(e.elt.id) == pat:
            return it, "list"
        et, _ = self.expr(e.elt, env2)
        return f"(map (fun {pat} => {et}) {it})", "list"

    e_GeneratorExp = e_ListComp

    def e_DictComp(self, e, env):
        it, pat, env2 = self.comp(e, env, None)
        kt, _ = self.expr(e.key, env2)
        # value may contain d[k] lookups: translated in option context (KeyError => entry omitted, noted)
        self.binds = []
        vt, _ = self.expr(e.value, env2)
        binds, self.binds = self.binds, None
        body = f"[({kt}, {vt})]"
        for (v, ot) in reversed(binds):
            body = f"match {ot} with Some {v} => {body} | None => [] end"
            self.notes.append(f"line {e.lineno}: d[k] inside dict comprehension: a missing key omits the entry (Python: KeyError)")
        return f"(dict_of_list (flat_map (fun {pat} => {body}) {it}))", "dict"

    binds = None
    fresh = 0

    def e_Subscript(self, e, env):
        dt, dty = self.expr(e.value, env)
        if dty != "dict":
            raise Unsupported(e, f"subscript on type {dty}")
        kt, _ = self.expr(e.slice, env)
        if self.binds is None:
            raise Unsupported(e, "d[k] outside a dict-comprehension value")
        Fn.fresh += 1
        v = f"v__{Fn.fresh}"
        self.binds.append((v, f"dict_get {dt} {kt}"))
        return v, "any"

    def e_BoolOp(self, e, env):
        op = "andb" if isinstance(e.op, ast.And) else "orb"
        ts = [self.expr(v, env)[0] for v in e.values]
        t = ts[-1]
        for x in reversed(ts[:-1]):
            t = f"({op} {x} {t})"
        return t, "bool"

    def e_UnaryOp(self, e, env):
        if isinstance(e.op, ast.Not):
            t, _ = self.expr(e.operand, env)
            return f"(negb {t})", "bool"
        raise Unsupported(e, "unary operator")

    def e_IfExp(self, e, env):
        c, _ = self.expr(e.test, env)
        a, ta = self.expr(e.body, env)
        b, _ = self.expr(e.orelse, env)
        return f"(if {c} then {a} else {b})", ta

    def e_BinOp(self, e, env):
        a, ta = self.expr(e.left, env)
        b, tb = self.expr(e.right, env)
        if isinstance(e.op, ast.Add):
            if ta == "nat" and tb == "nat":
                return f"({a} + {b})%nat", "nat"
            if ta == "str" and tb == "str":
                return f"(String.append {a} {b})", "str"
            if ta == "list" and tb == "list":
                return f"({a} ++ {b})%list", "list"
        if isinstance(e.op, ast.Sub) and ta == "set" and tb == "set":
            return f"(set_diff {a} {b})", "set"
        raise Unsupported(e, f"binary operator {type(e.op).__name__} on {ta},{tb}")

    def e_JoinedStr(self, e, env):
        parts = []
        for v in e.values:
            if isinstance(v, ast.Constant):
                parts.append(coq_string(v.value))
            elif isinstance(v, ast.FormattedValue) and v.format_spec is None and v.conversion == -1:
                t, ty = self.expr(v.value, env)
                if ty == "str":
                    parts.append(t)
                elif ty == "nat":
                    parts.append(f"(str_of_nat {t})")
                else:
                    raise Unsupported(v, f"f-string value of type {ty}")
            else:
                raise Unsupported(v, "f-string part")
        t = parts[-1]
        for p in reversed(parts[:-1]):
            t = f"(String.append {p} {t})"
        return t, "str"

    def e_Compare(self, e, env):
        if len(e.ops) != 1:
            raise Unsupported(e, "comparison chain")
        op = e.ops[0]
        L, R = e.left, e.comparators[0]
        if isinstance(op, (ast.In, ast.NotIn)):
            lt, _ = self.expr(L, env)
            rt, rty = self.expr(R, env)
            if rty == "oset":
                t = f"(OrderedSet___contains__ {rt} {lt})"
            elif rty in ("list", "set"):
                t = f"(mem {lt} {rt})"
            elif rty == "dict":
                t = f"(dict_has {rt} {lt})"
            elif rty == "str" and self.expr(L, env)[1] == "str":
                t = f"(str_contains {lt} {rt})"
            else:
                raise Unsupported(e, f"`in` on type {rty}")
            return (t if isinstance(op, ast.In) else f"(negb {t})"), "bool"
        if isinstance(op, (ast.Is, ast.IsNot)) and isinstance(R, ast.Constant) and R.value is None:
            lt, lty = self.expr(L, env)
            if not lty.startswith("opt:"):
                raise Unsupported(e, f"`is None` on non-optional {lty}")
            t = f"(match {lt} with None => true | Some _ => false end)"
            return (t if isinstance(op, ast.Is) else f"(negb {t})"), "bool"
        lt, lty = self.expr(L, env)
        rt, rty = self.expr(R, env)
        if isinstance(op, ast.Gt) and lty == "nat" and rty == "nat":
            return f"(Nat.ltb {rt} {lt})", "bool"
        if isinstance(op, ast.GtE) and lty == "nat" and rty == "nat":
            return f"(Nat.leb {rt} {lt})", "bool"
        if isinstance(op, ast.Lt) and lty == "nat" and rty == "nat":
            return f"(Nat.ltb {lt} {rt})", "bool"
        if isinstance(op, ast.LtE) and lty == "oset":
            return f"(OrderedSet___le__ {lt} {self.iter_of(R, env)})", "bool"
        if isinstance(op, ast.GtE) and lty == "oset":
            return f"(OrderedSet___ge__ {lt} {self.iter_of(R, env)})", "bool"
        if isinstance(op, (ast.Eq, ast.NotEq)):
            if lty == "oset":
                t = f"(abc_Set___eq__ {lt} {self.iter_of(R, env)})"
            else:
                t = f"(eqb {lt} {rt})"
            return (t if isinstance(op, ast.Eq) else f"(negb {t})"), "bool"
        raise Unsupported(e, f"comparison {type(op).__name__} on {lty},{rty}")

    def e_List(self, e, env):
        ts = [self.expr(x, env)[0] for x in e.elts]
        return "[" + "; ".join(ts) + "]", "list"

    def e_Call(self, e, env):
        if e.keywords and not self.cfg.get("allow_kw"):
            raise Unsupported(e, "keyword arguments in call")
        f = e.func
        name = self.dotted(f)
        args = e.args
        # builtins
        if name == "len" and len(args) == 1:
            t, ty = self.expr(args[0], env)
            if ty == "oset":
                return f"(OrderedSet___len__ {t})", "nat"
            if ty in ("list", "set", "dict", "str"):
                return (f"(List.length {t})" if ty != "str" else f"(String.length {t})"), "nat"
            raise Unsupported(e, f"len of {ty}")
        if name == "set" and len(args) <= 1:
            if not args:
                return "[]", "set"
            return f"(py_set {self.iter_of(args[0], env)})", "set"
        if name in ("list", "tuple") and len(args) == 1:
            return self.iter_of(args[0], env), "list"
        if name == "iter" and len(args) == 1:
            return self.iter_of(args[0], env), "list"
        if name == "all" and len(args) == 1 and isinstance(args[0], ast.GeneratorExp):
            g = args[0]
            it, pat, env2 = self.comp(g, env, None)
            et, _ = self.expr(g.elt, env2)
            return f"(forallb (fun {pat} => {et}) {it})", "bool"
        if name == "any" and len(args) == 1 and isinstance(args[0], ast.GeneratorExp):
            g = args[0]
            it, pat, env2 = self.comp(g, env, None)
            et, _ = self.expr(g.elt, env2)
            return f"(existsb (fun {pat} => {et}) {it})", "bool"
        if name == "collections.OrderedDict" and not args:
            return "[]", "dict"
        if name == "dict" and not args:
            return "[]", "dict"
        if name == "isinstance":
            raise Unsupported(e, "isinstance outside a recognised assert")
        if name == "re.sub" and len(args) == 3:
            st, sty = self.expr(args[2], env)
            rt, rty = self.expr(args[1], env)
            if sty != "str" or rty != "str":
                raise Unsupported(e, "re.sub on non-strings")
            if isinstance(args[0], ast.Constant) and args[0].value == "(\\s|\\r|\\n)+":
                return f"(re_sub_ws_plus {rt} {st})", "str"
            if isinstance(args[0], ast.Attribute) and self.dotted(args[0]) in ("self.string_quote", "self.identifier_quote"):
                pt, _ = self.expr(args[0], env)
                self.notes.append(f"line {e.lineno}: re.sub with the quote string as pattern is a literal replacement (no regex metacharacter in any dialect's quote)")
                return f"(str_replace {pt} {rt} {st})", "str"
            raise Unsupported(e, "re.sub with an unrecognised pattern")
        # configured externs  (python dotted name -> coq name, result type)
        ext = self.mod.cfg.get("externs", {})
        if name in ext:
            cn, rty = ext[name]
            ts = [self.expr(a, env)[0] for a in args]
            return "(" + " ".join([cn] + ts) + ")", rty
        # class constructor
        if name in self.mod.cfg.get("classes", {}):
            if len(args) == 0:
                return f"({name}___init__ None)", "oset"
            t, ty = self.expr(args[0], env) if not isinstance(args[0], (ast.ListComp, ast.GeneratorExp)) else self.e_ListComp(args[0], env)
            if ty == "oset":
                t = f"(OrderedSet___iter__ {t})"
            elif ty == "dict":
                t = f"(dict_keys {t})"
            return f"({name}___init__ (Some {t}))", "oset"
        # module-level function of the same module
        if name in self.mod.funcs:
            ts = [self.expr(a, env)[0] for a in args]
            return "(" + " ".join([cname(name)] + ts) + ")", self.mod.funcs[name]
        # method calls
        if isinstance(f, ast.Attribute):
            ot, oty = self.expr(f.value, env)
            mname = f.attr
            if oty == "dict":
                if mname == "keys" and not args:
                    return f"(dict_keys {ot})", "list"
                if mname == "values" and not args:
                    return f"(dict_values {ot})", "list"
                if mname == "copy" and not args:
                    return ot, "dict"
            if oty == "str":
                if mname == "strip" and not args:
                    return f"(str_strip {ot})", "str"
                if mname == "replace" and len(args) == 2:
                    a0, t0 = self.expr(args[0], env)
                    a1, t1 = self.expr(args[1], env)
                    if t0 == "str" and t1 == "str":
                        return f"(str_replace {a0} {a1} {ot})", "str"
            if oty == "set":
                if mname == "intersection" and len(args) == 1:
                    return f"(set_inter {ot} {self.iter_of(args[0], env)})", "set"
                if mname == "union" and len(args) == 1:
                    return f"(set_union {ot} {self.iter_of(args[0], env)})", "set"
                if mname == "copy" and not args:
                    return ot, "set"
            if oty == "oset" and self.cls and mname in self.mod.cfg["classes"][self.cls]["pure_methods"]:
                ts = [self.expr(a, env)[0] for a in args]
                return "(" + " ".join([f"{self.cls}_{mname}", ot] + ts) + ")", self.mod.cfg["classes"][self.cls]["pure_methods"][mname]
            raise Unsupported(e, f"method .{mname} on type {oty}")
        raise Unsupported(e, f"call of {name}")

    # ---------- statements
    def assigned(self, stmts):
        """names (re)bound by a statement list, in first-assignment order"""
        out = []

        def add(n):
            if n not in out:
                out.append(n)
        for s in stmts:
            if isinstance(s, ast.Assign):
                for t in s.targets:
                    add(self.target_root(t))
            elif isinstance(s, ast.AugAssign):
                add(self.target_root(s.target))
            elif isinstance(s, ast.Expr):
                r = self.mutated_by_call(s.value)
                if r:
                    add(r)
            elif isinstance(s, ast.If):
                for n in self.assigned(s.body) + self.assigned(s.orelse):
                    add(n)
            elif isinstance(s, ast.For):
                for n in self.assigned(s.body):
                    add(n)
            elif isinstance(s, (ast.Return, ast.Assert, ast.Raise, ast.Pass)):
                pass
            else:
                raise Unsupported(s, f"statement {type(s).__name__}")
        return out

    def target_root(self, t):
        if isinstance(t, ast.Name):
            return t.id
        if isinstance(t, ast.Attribute) and isinstance(t.value, ast.Name) and t.value.id == "self":
            return "self"
        if isinstance(t, ast.Subscript):
            return self.target_root(t.value)
        raise Unsupported(t, "assignment target")

    def mutated_by_call(self, e):
        """if expression statement e is a mutating method call, the root variable it mutates"""
        if isinstance(e, ast.Constant) and isinstance(e.value, str):
            return None   # docstring
        if isinstance(e, ast.Call) and isinstance(e.func, ast.Attribute):
            return self.target_root(e.func.value)
        raise Unsupported(e, "expression statement")

    def has_return(self, stmts):
        for s in stmts:
            if isinstance(s, (ast.Return, ast.Raise)):
                return True
            if isinstance(s, ast.If) and (self.has_return(s.body) or self.has_return(s.orelse)):
                return True
            if isinstance(s, ast.For) and self.has_return(s.body):
                raise Unsupported(s, "return/raise inside a for loop")
        return False

    def tuple_of(self, names):
        ns = [cname(n) for n in names]
        return ns[0] if len(ns) == 1 else "(" + ", ".join(ns) + ")"

    def pat_of(self, names):
        ns = [cname(n) for n in names]
        return ns[0] if len(ns) == 1 else "'(" + ", ".join(ns) + ")"

    def block(self, stmts, env, final):
        """translate stmts; `final(env)` gives the term when control falls off the end"""
        if not stmts:
            return final(env)
        s, rest = stmts[0], stmts[1:]
        if isinstance(s, ast.Expr) and isinstance(s.value, ast.Constant) and isinstance(s.value.value, str):
            return self.block(rest, env, final)
        if isinstance(s, ast.Pass):
            return self.block(rest, env, final)
        if isinstance(s, ast.Return):
            if s.value is None:
                return self.ret(self.cfg.get("return_none", "tt"))
            t, ty = self.expr(s.value, env)
            if self.cfg.get("ret_optional") and ty.startswith("opt:"):
                return t          # already an option
            return self.ret(t)
        if isinstance(s, ast.Raise):
            return self.fail(s, "raise")
        if isinstance(s, ast.Assert):
            if self.static_true(s.test, env):
                self.notes.append(f"line {s.lineno}: assert statically true in the model (typed iterable is never a str)")
                return self.block(rest, env, final)
            c, _ = self.expr(s.test, env)
            return f"if {c} then {self.block(rest, env, final)} else {self.fail(s, 'assert')}"
        if isinstance(s, ast.Assign):
            if len(s.targets) != 1:
                raise Unsupported(s, "multiple assignment targets")
            return self.assign(s.targets[0], s.value, env, rest, final)
        if isinstance(s, ast.Expr):
            return self.mutcall(s.value, env, rest, final)
        if isinstance(s, ast.If):
            return self.if_stmt(s, env, rest, final)
        if isinstance(s, ast.For):
            return self.for_stmt(s, env, rest, final)
        raise Unsupported(s, f"statement {type(s).__name__}")

    def static_true(self, test, env):
        # assert not isinstance(x, str)   with x of a known non-str type
        if isinstance(test, ast.UnaryOp) and isinstance(test.op, ast.Not):
            c = test.operand
            if (isinstance(c, ast.Call) and self.dotted(c.func) == "isinstance" and len(c.args) == 2
                    and isinstance(c.args[0], ast.Name) and isinstance(c.args[1], ast.Name) and c.args[1].id == "str"):
                ty = env.get(c.args[0].id)
                return ty is not None and ty not in ("str", "any")
        if (isinstance(test, ast.Call) and self.dotted(test.func) == "isinstance" and len(test.args) == 2
                and isinstance(test.args[0], ast.Name) and isinstance(test.args[1], ast.Tuple)
                and env.get(test.args[0].id) == "opt:str" and ast.unparse(test.args[1]) == "(str, type(None))"):
            return True
        if isinstance(test, ast.Call) and self.dotted(test.func) == "isinstance" and len(test.args) == 2:
            a, c = test.args
            if isinstance(a, ast.Name) and isinstance(c, ast.Name):
                ty = env.get(a.id)
                return (c.id, ty) in (("str", "str"), ("bool", "bool"), ("dict", "dict"))
        return False

    def assign(self, target, value, env, rest, final):
        if isinstance(target, ast.Name):
            t, ty = self.expr(value, env)
            env2 = dict(env)
            env2[target.id] = self.cfg.get("locals", {}).get(target.id, ty)
            return f"let {cname(target.id)} := {t} in\n  {self.block(rest, env2, final)}"
        if isinstance(target, ast.Attribute) and isinstance(target.value, ast.Name) and target.value.id == "self" and self.cls:
            t, ty = self.expr(value, env)
            upd = self.set_field(target.attr, t)
            return f"let self := {upd} in\n  {self.block(rest, env, final)}"
        if isinstance(target, ast.Subscript):
            # d[k] = v
            dt, dty = self.expr(target.value, env)
            if dty != "dict":
                raise Unsupported(target, f"subscript store on {dty}")
            kt, _ = self.expr(target.slice, env)
            vt, vty = self.expr(value, env)
            if vty == "none":
                vt = "tt"
            newd = f"(dict_set {dt} {kt} {vt})"
            return self.store_back(target.value, newd, env, rest, final)
        raise Unsupported(target, "assignment target")

    def set_field(self, attr, term, obj="self"):
        fields = self.mod.cfg["classes"][self.cls]["fields"]
        parts = []
        for fn in fields:
            parts.append(term if fn == attr else f"({self.cls}_{fn} {obj})")
        return f"(mk_{self.cls} " + " ".join(parts) + ")"

    def store_back(self, obj, newval, env, rest, final):
        """obj (Name or self.attr) := newval"""
        if isinstance(obj, ast.Name):
            return f"let {cname(obj.id)} := {newval} in\n  {self.block(rest, env, final)}"
        if isinstance(obj, ast.Attribute) and isinstance(obj.value, ast.Name) and obj.value.id == "self" and self.cls:
            return f"let self := {self.set_field(obj.attr, newval)} in\n  {self.block(rest, env, final)}"
        raise Unsupported(obj, "mutation target")

    def mutcall(self, e, env, rest, final):
        if not (isinstance(e, ast.Call) and isinstance(e.func, ast.Attribute)):
            raise Unsupported(e, "expression statement")
        if e.keywords:
            raise Unsupported(e, "keyword arguments")
        obj, m = e.func.value, e.func.attr
        ot, oty = self.expr(obj, env)
        args = e.args
        if oty == "oset":
            cls = "OrderedSet"
            muts = self.mod.cfg["classes"][cls]["mut_methods"]
            if m in muts:
                ts = [self.expr(a, env)[0] for a in args]
                return self.store_back(obj, "(" + " ".join([f"{cls}_{m}", ot] + ts) + ")", env, rest, final)
        if oty == "dict":
            if m == "pop" and len(args) == 2 and isinstance(args[1], ast.Constant) and args[1].value is None:
                kt, _ = self.expr(args[0], env)
                return self.store_back(obj, f"(dict_pop {ot} {kt})", env, rest, final)
            if m == "update" and len(args) == 1:
                at, aty = self.expr(args[0], env)
                if aty != "dict":
                    raise Unsupported(e, f"dict.update with {aty}")
                return self.store_back(obj, f"(dict_update {ot} {at})", env, rest, final)
        if oty == "set":
            if m == "add" and len(args) == 1:
                at, _ = self.expr(args[0], env)
                return self.store_back(obj, f"(add_end {ot} {at})", env, rest, final)
        if oty == "list":
            if m == "append" and len(args) == 1:
                at, _ = self.expr(args[0], env)
                return self.store_back(obj, f"({ot} ++ [{at}])%list", env, rest, final)
        raise Unsupported(e, f"statement-call .{m} on type {oty}")

    def if_stmt(self, s, env, rest, final):
        # `if x is not None:` on an optional binds the payload
        test = s.test
        optvar = None
        if isinstance(test, ast.Name) and self.mod.consts.get(test.id) == ("false", "bool"):
            return self.block(s.orelse + rest, env, final)   # statically false (modelled-away **kwargs)
        if (isinstance(test, ast.Compare) and len(test.ops) == 1 and isinstance(test.ops[0], (ast.Is, ast.IsNot))
                and isinstance(test.comparators[0], ast.Constant) and test.comparators[0].value is None
                and isinstance(test.left, ast.Name) and env.get(test.left.id, "").startswith("opt:")):
            optvar = test.left.id
            some_branch, none_branch = (s.body, s.orelse) if isinstance(test.ops[0], ast.IsNot) else (s.orelse, s.body)
        if self.has_return(s.body) or self.has_return(s.orelse):
            if optvar:
                envs = dict(env)
                envs[optvar] = env[optvar][4:]
                a = self.block(some_branch + rest, envs, final)
                b = self.block(none_branch + rest, env, final)
                return f"match {cname(optvar)} with\n  | Some {cname(optvar)} => {a}\n  | None => {b}\n  end"
            c, _ = self.expr(test, env)
            a = self.block(s.body + rest, env, final)
            b = self.block(s.orelse + rest, env, final)
            return f"if {c} then {a}\n  else {b}"
        vs = self.assigned(s.body + s.orelse)
        for v in vs:
            if v not in env:
                raise Unsupported(s, f"variable {v} first assigned inside an if")
        if not vs:
            return self.block(rest, env, final)
        tup = self.tuple_of(vs)
        fin = lambda _env: tup
        if optvar:
            # rebinding the optional itself inside the branch is not supported
            if optvar in vs:
                raise Unsupported(s, "optional rebound in its own test")
            envs = dict(env)
            envs[optvar] = env[optvar][4:]
            a = self.block(some_branch, envs, fin)
            b = self.block(none_branch, env, fin)
            head = f"match {cname(optvar)} with Some {cname(optvar)} => {a} | None => {b} end"
        else:
            c, _ = self.expr(test, env)
            a = self.block(s.body, env, fin)
            b = self.block(s.orelse, env, fin)
            head = f"if {c} then {a} else {b}"
        return f"let {self.pat_of(vs)} := ({head}) in\n  {self.block(rest, env, final)}"

    def for_stmt(self, s, env, rest, final):
        if s.orelse:
            raise Unsupported(s, "for/else")
        if self.has_return(s.body):
            raise Unsupported(s, "return inside for")
        if not isinstance(s.target, ast.Name):
            raise Unsupported(s, "for target")
        it = self.iter_of(s.iter, env)
        vs = self.assigned(s.body)
        for v in vs:
            if v not in env:
                raise Unsupported(s, f"variable {v} first assigned inside a loop")
        if not vs:
            return self.block(rest, env, final)
        env2 = dict(env)
        env2[s.target.id] = self.cfg.get("elem", {}).get(s.target.id, "any")
        tup = self.tuple_of(vs)
        body = self.block(s.body, env2, lambda _e: tup)
        pat = self.pat_of(vs)
        accpat = tup if len(vs) == 1 else "acc__"
        inner = body if len(vs) == 1 else f"let {pat} := acc__ in {body}"
        return (f"let {pat} := fold_left (fun {accpat} {cname(s.target.id)} => {inner}) {it} {tup} in\n  "
                f"{self.block(rest, env, final)}")

    # ---------- whole function
    def translate(self):
        f = self.fdef
        a = f.args
        if a.posonlyargs or (a.kwonlyargs and not self.cfg.get("allow_kw")):
            raise Unsupported(f, "argument kinds")
        env = {}
        params = []
        ptypes = self.cfg.get("params", {})
        names = [x.arg for x in a.args] + ([a.vararg.arg] if a.vararg else []) + [x.arg for x in a.kwonlyargs]
        for an, (cty, tag) in self.cfg.get("self_attrs", {}).items():
            env_name = an
            params.append(f"({cname(an)} : {cty})")
        for n in names:
            if n == "self" and self.cfg.get("self_attrs") is not None:
                continue
            if n == "self":
                env["self"] = "oset"
                params.append(f"(self : {self.cls}_t)")
                continue
            if n not in ptypes:
                raise Unsupported(f, f"parameter {n} has no configured type")
            cty, tag = ptypes[n]
            env[n] = tag
            params.append(f"({cname(n)} : {cty})")
        if a.kwarg:
            if a.kwarg.arg not in self.cfg.get("ignore_kwargs", []):
                raise Unsupported(f, "**kwargs")
            self.mod.consts[a.kwarg.arg] = ("false", "bool")
            self.notes.append(f"**{a.kwarg.arg} modelled as always empty")
        mutates_self = self.cfg.get("returns_self", False)

        def final(_env):
            if mutates_self:
                return self.ret("self")
            return self.ret(self.cfg.get("return_none", "tt"))
        body = self.block(f.body, env, final)
        nm = (f"{self.cls}_{f.name}" if self.cls else cname(f.name))
        return f"Definition {nm} {' '.join(params)} :=\n  {body}."


class DispatchFn(Fn):
    """A method whose result is chosen by the dynamic type of ONE argument (`if v is None:` / `if isinstance(v, T):`
    tests, in order).  The argument becomes a Gallina sum type; the function body is translated once per constructor
    with every type test on the argument decided statically from the constructor's Python classes (so the ORDER of the
    tests is kept: a bool is also an int), giving `Fixpoint f .. (v : T) {struct v} := match v with | C .. => .. end`.
    cfg["dispatch"] = {"arg": name, "type": coq type, "ctors": [{"ctor", "classes": [dotted names as written in the source],
    "is_none": bool, "payload": tag | None, "attrs": {attr: tag}}]}.  Tags: str bool Z float pyval pylist other.
    Everything not enumerated here is UNSUPPORTED."""

    def static_test(self, test):
        d = self.cfg["dispatch"]
        c = self.ctor
        if isinstance(test, ast.Compare) and len(test.ops) == 1 and isinstance(test.left, ast.Name) and test.left.id == d["arg"] \
                and isinstance(test.comparators[0], ast.Constant) and test.comparators[0].value is None:
            if isinstance(test.ops[0], ast.Is):
                return bool(c.get("is_none"))
            if isinstance(test.ops[0], ast.IsNot):
                return not c.get("is_none")
            return None
        if isinstance(test, ast.Call) and self.dotted(test.func) == "isinstance" and len(test.args) == 2 and not test.keywords \
                and isinstance(test.args[0], ast.Name) and test.args[0].id == d["arg"]:
            cls = self.dotted(test.args[1])
            if cls is None:
                return None
            known = set()
            for cc in d["ctors"]:
                known.update(cc["classes"])
            if cls not in known:
                raise Unsupported(test, f"isinstance against a class outside the dispatch table: {cls}")
            return cls in c["classes"]
        if isinstance(test, ast.BoolOp):
            vals = [self.static_test(v) for v in test.values]
            if any(v is None for v in vals):
                return None
            return any(vals) if isinstance(test.op, ast.Or) else all(vals)
        if isinstance(test, ast.UnaryOp) and isinstance(test.op, ast.Not):
            v = self.static_test(test.operand)
            return None if v is None else (not v)
        return None

    def if_stmt(self, s, env, rest, final):
        v = self.static_test(s.test)
        if v is True:
            return self.block(s.body + rest, env, final)
        if v is False:
            return self.block(s.orelse + rest, env, final)
        return super().if_stmt(s, env, rest, final)

    def e_Name(self, e, env):
        d = self.cfg["dispatch"]
        if e.id == d["arg"]:
            tag = self.ctor.get("payload")
            if tag is None:
                raise Unsupported(e, f"use of {e.id} itself in the {self.ctor['ctor']} case (no payload)")
            return cname(e.id), tag
        return super().e_Name(e, env)

    def e_Attribute(self, e, env):
        d = self.cfg["dispatch"]
        if isinstance(e.value, ast.Name) and e.value.id == d["arg"]:
            at = self.ctor.get("attrs", {})
            if e.attr in at:
                return cname(f"{d['arg']}_{e.attr}"), at[e.attr]
            raise Unsupported(e, f"attribute .{e.attr} in the {self.ctor['ctor']} case")
        return super().e_Attribute(e, env)

    def e_Call(self, e, env):
        d = self.cfg["dispatch"]
        name = self.dotted(e.func)
        args = e.args
        selfargs = " ".join(cname(a) for a in self.cfg.get("self_attrs", {}))
        me = "self." + self.fdef.name
        if e.keywords:
            raise Unsupported(e, "keyword arguments in call")
        if name == me and len(args) == 1:
            t, ty = self.expr(args[0], env)
            if ty != "pyval":
                raise Unsupported(e, f"recursive call on type {ty}")
            return f"({cname(self.fdef.name)} {selfargs} {t})", "str"
        if name == "str" and len(args) == 1:
            t, ty = self.expr(args[0], env)
            fn = {"Z": "py_str_int", "float": "py_str_float", "other": "py_str_other"}.get(ty)
            if fn is None:
                raise Unsupported(e, f"str() of type {ty}")
            return f"({fn} {t})", "str"
        if name == "math.isnan" and len(args) == 1:
            t, ty = self.expr(args[0], env)
            if ty != "float":
                raise Unsupported(e, f"math.isnan of type {ty}")
            return f"(py_isnan {t})", "bool"
        if name in self.cfg.get("self_methods", {}) and len(args) == 1:
            cn, aty, extra = self.cfg["self_methods"][name]
            t, ty = self.expr(args[0], env)
            if ty != aty:
                raise Unsupported(e, f"{name} on type {ty}")
            return f"({cn} {extra} {t})", "str"
        # "<sep>".join([self.f(x) for x in <list>])
        if isinstance(e.func, ast.Attribute) and e.func.attr == "join" and isinstance(e.func.value, ast.Constant) \
                and isinstance(e.func.value.value, str) and len(args) == 1 and isinstance(args[0], (ast.ListComp, ast.GeneratorExp)):
            g = args[0]
            if len(g.generators) != 1 or g.generators[0].ifs or g.generators[0].is_async or not isinstance(g.generators[0].target, ast.Name):
                raise Unsupported(e, "join over a comprehension with filters / several generators")
            it, ity = self.expr(g.generators[0].iter, env)
            if ity != "pylist":
                raise Unsupported(e, f"join over iteration of type {ity}")
            x = g.generators[0].target.id
            el = g.elt
            if not (isinstance(el, ast.Call) and self.dotted(el.func) == me and len(el.args) == 1 and not el.keywords
                    and isinstance(el.args[0], ast.Name) and el.args[0].id == x):
                raise Unsupported(e, "join element is not the recursive call on the loop variable")
            return f"(str_join {coq_string(e.func.value.value)} (map ({cname(self.fdef.name)} {selfargs}) {it}))", "str"
        raise Unsupported(e, f"call of {name} in a dispatch function")

    def translate(self):
        f = self.fdef
        d = self.cfg["dispatch"]
        a = f.args
        names = [x.arg for x in a.args]
        if a.posonlyargs or a.kwonlyargs or a.vararg or a.kwarg or names != ["self", d["arg"]]:
            raise Unsupported(f, "dispatch function must be (self, <arg>)")
        params = [f"({cname(an)} : {cty})" for an, (cty, tag) in self.cfg.get("self_attrs", {}).items()]
        arms = []
        for c in d["ctors"]:
            self.ctor = c
            binds = []
            if c.get("payload") is not None:
                binds.append(cname(d["arg"]))
            for at in c.get("attrs", {}):
                binds.append(cname(f"{d['arg']}_{at}"))

            def final(_env):
                raise Unsupported(f, f"control can fall off the end in the {c['ctor']} case")
            body = self.block(f.body, {}, final)
            arms.append(f"  | {' '.join([c['ctor']] + binds)} => {body}")
        return (f"Fixpoint {cname(f.name)} {' '.join(params)} ({cname(d['arg'])} : {d['type']}) {{struct {cname(d['arg'])}}} : string :=\n"
                f"  match {cname(d['arg'])} with\n" + "\n".join(arms) + "\n  end.")


class Module:
    def __init__(self, src_path, cfg):
        self.cfg = cfg
        self.path = src_path
        self.src = open(src_path).read()
        self.tree = ast.parse(self.src)
        self.consts = {}
        self.funcs = dict(cfg.get("func_types", {}))

    def find(self, name, cls=None):
        body = self.tree.body
        if cls:
            for n in body:
                if isinstance(n, ast.ClassDef) and n.name == cls:
                    body = n.body
                    break
            else:
                raise Unsupported(self.tree, f"class {cls} not found")
        for n in body:
            if isinstance(n, ast.FunctionDef) and n.name == name:
                return n
        raise Unsupported(self.tree, f"function {cls + '.' if cls else ''}{name} not found")

    def translate(self):
        out = []
        notes = []
        for item in self.cfg["items"]:
            cls, name = item.get("cls"), item["name"]
            fdef = self.find(name, cls)
            fn = Fn(self, fdef, item, cls)
            out.append(fn.translate())
            notes += [f"{name}: {n}" for n in fn.notes]
            self.consts.pop("kwargs", None)
        return out, notes


# --------------------------------------------------------------------------------------------
# Targets

LISTA = ("list A", "list")
TARGETS = {
    "G_OrderedSet": {
        "file": "data_algebra/OrderedSet.py",
        "header": ("From Coq Require Import List String Bool Arith.\nImport ListNotations.\n"
                   "From DA Require Import Base.PyRT.\n\nSection G.\nContext {A : Type} `{EqDec A}.\n\n"
                   "Record OrderedSet_t := mk_OrderedSet { OrderedSet_impl : pydict A unit }.\n"
                   "(* collections.abc.Set.__eq__ (stdlib, not repo code): same size and subset *)\n"
                   "Definition abc_Set___eq__ (s : OrderedSet_t) (o : list A) : bool :=\n"
                   "  andb (Nat.eqb (List.length (OrderedSet_impl s)) (List.length (py_set o))) (forallb (fun e => mem e o) (dict_keys (OrderedSet_impl s))).\n"),
        "footer": "End G.\n",
        "classes": {"OrderedSet": {"fields": {"impl": ("pydict A unit", "dict")},
                                   "mut_methods": {"add", "discard", "update"},
                                   "pure_methods": {"__le__": "bool", "__ge__": "bool"}}},
        "func_types": {},
        "items": [
            {"cls": "OrderedSet", "name": "add", "params": {"elem": ("A", "any")}, "returns_self": True},
            {"cls": "OrderedSet", "name": "__init__", "params": {"v": ("option (list A)", "opt:list")}, "returns_self": True,
             "pre": "let self := mk_OrderedSet [] in"},
            {"cls": "OrderedSet", "name": "update", "params": {"args": ("list (list A)", "list")}, "elem": {"s": "list"},
             "returns_self": True, "ignore_kwargs": ["kwargs"]},
            {"cls": "OrderedSet", "name": "discard", "params": {"elem": ("A", "any")}, "returns_self": True},
            {"cls": "OrderedSet", "name": "__iter__", "params": {}},
            {"cls": "OrderedSet", "name": "__len__", "params": {}},
            {"cls": "OrderedSet", "name": "__contains__", "params": {"item": ("A", "any")}},
            {"cls": "OrderedSet", "name": "__copy__", "params": {}},
            {"cls": "OrderedSet", "name": "copy", "params": {}},
            {"cls": "OrderedSet", "name": "__le__", "params": {"other": LISTA}},
            {"cls": "OrderedSet", "name": "__ge__", "params": {"other": LISTA}},
            {"cls": "OrderedSet", "name": "__lt__", "params": {"other": LISTA}},
            {"cls": "OrderedSet", "name": "__gt__", "params": {"other": LISTA}},
            {"cls": "OrderedSet", "name": "union", "params": {"args": ("list (list A)", "list")}, "elem": {"other": "list"}},
            {"name": "ordered_intersect", "params": {"a": LISTA, "b": LISTA}},
            {"name": "ordered_union", "params": {"a": LISTA, "b": LISTA}, "locals": {"a": "oset"}},
            {"name": "ordered_diff", "params": {"a": LISTA, "b": LISTA}},
        ],
    },
    "G_Quote": {
        "file": "data_algebra/sql_model.py",
        "header": ("From Coq Require Import List String Bool Arith.\nImport ListNotations.\n"
                   "From DA Require Import Base.PyRT Base.PyStr.\n\n"
                   "(* quote_identifier / quote_string take the dialect's quote strings (self.identifier_quote, self.string_quote)\n"
                   "   as explicit parameters; None models the ValueError *)\n"),
        "footer": "",
        "items": [
            {"cls_lookup": "SQLModel", "name": "quote_identifier", "mode": "option", "self_attrs": {"identifier_quote": ("string", "str")},
             "params": {"identifier": ("string", "str")}},
            {"cls_lookup": "SQLModel", "name": "quote_string", "self_attrs": {"string_quote": ("string", "str")},
             "params": {"string": ("string", "str")}},
            {"name": "_clean_annotation", "ret_optional": True, "params": {"annotation": ("option string", "opt:str")}},
        ],
    },
    "G_QuoteMySQL": {
        "file": "data_algebra/MySQL.py",
        "header": ("From Coq Require Import List String Bool Arith.\nImport ListNotations.\n"
                   "From DA Require Import Base.PyRT Base.PyStr.\n\n"),
        "footer": "",
        "items": [
            {"cls_lookup": "MySQLModel", "name": "quote_identifier", "rename": "mysql_quote_identifier", "mode": "option",
             "self_attrs": {"identifier_quote": ("string", "str")}, "params": {"identifier": ("string", "str")}},
        ],
    },
    "G_MergeOps": {
        "file": "data_algebra/data_ops_utils.py",
        "header": ("From Coq Require Import List String Bool Arith.\nImport ListNotations.\n"
                   "From DA Require Import Base.PyRT.\n\nSection G.\n"
                   "(* E: the type of expression trees; get_columns_used: expr_rep.get_columns_used,\n"
                   "   hand-modelled in Model/Expr.v and instantiated there *)\n"
                   "Context {E : Type} (get_columns_used : pydict string E -> list string).\n"),
        "footer": "End G.\n",
        "externs": {"data_algebra.expr_rep.get_columns_used": ("get_columns_used", "list")},
        "items": [
            {"name": "try_to_merge_ops", "ret_optional": True,
             "params": {"ops1": ("pydict string E", "dict"), "ops2": ("pydict string E", "dict")},
             "return_none": "None"},
        ],
    },
}


def _load_plugin_targets():
    """extra targets live one file per property in tools/py2v_targets/<name>.py (a module-level dict TARGETS)"""
    d = os.path.join(os.path.dirname(os.path.abspath(__file__)), "py2v_targets")
    if not os.path.isdir(d):
        return
    for n in sorted(os.listdir(d)):
        if n.endswith(".py") and not n.startswith("_"):
            ns = {"LISTA": LISTA}
            exec(compile(open(os.path.join(d, n)).read(), os.path.join(d, n), "exec"), ns)
            TARGETS.update(ns.get("TARGETS", {}))


_load_plugin_targets()


def generate(target, repo="/repo"):
    cfg = TARGETS[target]
    path = os.path.join(repo, cfg["file"])
    mod = Module(path, cfg)
    # __init__ of a class starts from an empty record: handled by a 'pre' line
    defs, notes = [], []
    for item in cfg["items"]:
        cls, name = item.get("cls"), item["name"]
        fdef = mod.find(name, cls or item.get("cls_lookup"))
        if item.get("rename"):
            import copy
            fdef = copy.copy(fdef)
            fdef.name = item["rename"]
        fn = (DispatchFn if item.get("dispatch") else Fn)(mod, fdef, item, cls)
        if name == "__init__":
            # `self` is created by the constructor; the first assignment of every field initialises it
            d = fn.translate()
            d = d.replace("(self : %s_t) " % cls, "").replace(":=\n  ", ":=\n  let self := mk_%s %s in\n  " % (
                cls, " ".join("[]" for _ in cfg["classes"][cls]["fields"])), 1)
            defs.append(d)
        else:
            defs.append(fn.translate())
        notes += [f"{name}: {n}" for n in fn.notes]
        mod.consts.pop("kwargs", None)
    sha = hashlib.sha256(mod.src.encode()).hexdigest()
    text = (f"(* GENERATED by tools/py2v.py from {cfg['file']} -- DO NOT EDIT.\n"
            + "".join(f"   note: {n}\n" for n in notes) + "*)\n"
            + cfg["header"] + "\n" + "\n\n".join(defs) + "\n\n" + cfg["footer"])
    return text, sha, notes


def main(argv):
    repo = "/repo"
    out = None
    args = []
    i = 0
    while i < len(argv):
        if argv[i] == "--repo":
            repo = argv[i + 1]; i += 2
        elif argv[i] == "--out":
            out = argv[i + 1]; i += 2
        else:
            args.append(argv[i]); i += 1
    if args == ["--selftest"]:
        return selftest()
    for t in args:
        cfg = TARGETS[t]
        try:
            text, sha, notes = generate(t, repo)
        except Unsupported as u:
            print(f"UNSUPPORTED {cfg['file']}:{u.line} {u.what}")
            return 2
        if out:
            open(out, "w").write(text)
        else:
            sys.stdout.write(text)
    return 0


def selftest():
    here = os.path.dirname(os.path.abspath(__file__))
    froz = os.path.join(here, "py2v_frozen")
    bad = 0
    for t in sorted(TARGETS):
        exp_path = os.path.join(froz, t + ".expected.v")
        if not os.path.exists(exp_path):
            continue
        text, _, _ = generate(t, os.path.join(froz, "repo"))
        if text != open(exp_path).read():
            print(f"SELFTEST FAIL {t}")
            bad += 1
    print("selftest", "ok" if not bad else "FAILED")
    return 1 if bad else 0


if __name__ == "__main__":
    sys.exit(main(sys.argv[1:]))
