# translator targets added for C14 (loaded by tools/py2v.py): SQLModel.value_to_sql as a dispatch on the value's dynamic type
_LT = "data_algebra.expr_rep.ListTerm"
_VT = "data_algebra.expr_rep.Value"
TARGETS = {
    "G_ValueToSql": {
        "file": "data_algebra/sql_model.py",
        "header": ("From Coq Require Import List String Bool Arith ZArith.\nImport ListNotations.\n"
                   "From DA Require Import Base.PyRT Base.PyStr Model.Lex Model.PyVal Gen.G_Quote.\n\n"
                   "(* value_to_sql takes the dialect's string quote (self.string_quote) as an explicit parameter; the Python value is a\n"
                   "   Model/PyVal.v `pyval`; every `v is None` / `isinstance(v, T)` test is decided per constructor, in source order *)\n"),
        "footer": "",
        "items": [
            {"cls_lookup": "SQLModel", "name": "value_to_sql", "self_attrs": {"string_quote": ("string", "str")},
             "self_methods": {"self.quote_string": ("quote_string", "str", "string_quote")},
             "dispatch": {"arg": "v", "type": "pyval", "ctors": [
                 {"ctor": "PNone", "classes": [], "is_none": True},
                 {"ctor": "PStr", "classes": ["str"], "payload": "str"},
                 {"ctor": "PBool", "classes": ["bool", "int"], "payload": "bool"},
                 {"ctor": "PInt", "classes": ["int"], "payload": "Z"},
                 {"ctor": "PFloat", "classes": ["float"], "payload": "float"},
                 {"ctor": "PList", "classes": ["list"], "payload": "pylist"},
                 {"ctor": "PTuple", "classes": ["tuple"], "payload": "pylist"},
                 {"ctor": "PListTerm", "classes": [_LT], "attrs": {"value": "pylist"}},
                 {"ctor": "PValue", "classes": [_VT], "attrs": {"value": "pyval"}},
                 {"ctor": "POther", "classes": [], "payload": "other"},
             ]}},
        ],
    },
}
