#!/venv/bin/python
"""Confirm a seeded defect delivered by an independent agent and file it under /verif/seeded/<name>/.

  tools/confirm_seeded.py <deliver-dir> <n> <property> <name> [--suite]

In a fresh scratch worktree of /repo HEAD: demo<n>.py must exit 0 without the patch and non-zero with patch<n>.diff applied;
with --suite the repository's test suite is run with the patch and compared with the baseline (349 passed).  Writes
seeded/<name>/{patch.diff, demo.py, notes.md, meta.json}."""
import json, os, shutil, subprocess, sys, re

ROOT = os.path.dirname(os.path.dirname(os.path.abspath(__file__)))


def run(cmd, cwd, timeout=3000):
    env = dict(os.environ, PYTHONPATH=cwd, PYTHONHASHSEED="0", PYTHONDONTWRITEBYTECODE="1")
    p = subprocess.run(cmd, cwd=cwd, env=env, capture_output=True, text=True, timeout=timeout)
    return p.returncode, (p.stdout + p.stderr)


def main(a):
    d, n, prop, name = a[0], a[1], a[2], a[3]
    suite = "--suite" in a
    wt = f"/tmp/confirm-{name}-{os.getpid()}"
    subprocess.run(["git", "-C", "/repo", "worktree", "add", "-q", wt, "HEAD"], check=True)
    res = {}
    try:
        demo = os.path.join(d, f"demo{n}.py")
        patch = os.path.join(d, f"patch{n}.diff")
        rc0, out0 = run(["/venv/bin/python", demo], wt)
        res["demo_without_patch_exit"] = rc0
        r = subprocess.run(["git", "-C", wt, "apply", patch], capture_output=True, text=True)
        if r.returncode != 0:
            print("patch does not apply", r.stderr); return 2
        rc1, out1 = run(["/venv/bin/python", demo], wt)
        res["demo_with_patch_exit"] = rc1
        res["demo_with_patch_tail"] = out1.strip().splitlines()[-3:]
        rci, outi = run(["/venv/bin/python", "-c", "import data_algebra, data_algebra.SQLite, data_algebra.PostgreSQL, data_algebra.cdata, data_algebra.solutions"], wt)
        res["imports_with_patch"] = rci == 0
        if suite:
            rcs, outs = run(["/venv/bin/python", "-m", "pytest", "-q", "-p", "no:cacheprovider", "--timeout=900"], wt, timeout=6000)
            m = re.search(r"(\d+) failed, (\d+) passed", outs)
            res["suite_with_patch"] = m.group(0) if m else outs[-300:]
            failed = sorted(set(re.findall(r"^FAILED (\S+)", outs, re.M)))
            base = json.load(open("/root/.vp/BASELINE.json"))
            exp = sorted("tests/" + x.split("::")[0].split(".")[1] + ".py::" + x.split("::")[1] for x in base["always_fail"])
            res["suite_same_failures_as_baseline"] = set(failed) <= set(exp)        # every baseline-stable test still passes (later fixes made 4 of the 36 environment failures pass)
    finally:
        subprocess.run(["git", "-C", "/repo", "worktree", "remove", "--force", wt])
    ok = res["demo_without_patch_exit"] == 0 and res["demo_with_patch_exit"] != 0 and res["imports_with_patch"] and (not suite or res.get("suite_same_failures_as_baseline"))
    res["confirmed"] = bool(ok)
    print(json.dumps(res, indent=1))
    if ok:
        out = os.path.join(ROOT, "seeded", name)
        os.makedirs(out, exist_ok=True)
        shutil.copy(patch, os.path.join(out, "patch.diff"))
        shutil.copy(demo, os.path.join(out, "demo.py"))
        notes = os.path.join(d, f"notes{n}.md")
        if os.path.exists(notes):
            shutil.copy(notes, os.path.join(out, "notes.md"))
        meta_p = os.path.join(out, "meta.json")
        meta = json.load(open(meta_p)) if os.path.exists(meta_p) else {}
        meta.update({"property": prop, "source": "independent sub-agent given only the property text and a scratch worktree",
                     "needs": meta.get("needs", "see notes.md"), "confirmed": res,
                     "ran": ["demo.py without patch (exit 0) and with patch (non-zero) in a scratch worktree of /repo HEAD"] + (["full test suite with the patch: " + str(res.get("suite_with_patch"))] if suite else [])})
        json.dump(meta, open(meta_p, "w"), indent=1)
    return 0 if ok else 1


if __name__ == "__main__":
    sys.exit(main(sys.argv[1:]))
