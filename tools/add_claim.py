#!/venv/bin/python
"""tools/add_claim.py <ID> <json-file with the MANIFEST checks[] entry an agent reported>  -> tools/claims.json + MANIFEST.json"""
import json, os, subprocess, sys
ROOT = os.path.dirname(os.path.dirname(os.path.abspath(__file__)))
pid, f = sys.argv[1], sys.argv[2]
e = json.load(open(f))
cl = json.load(open(os.path.join(ROOT, "tools", "claims.json")))
cl[pid] = {"technique": e["technique"], "text": e["level_claimed"]["text"], "note": e["level_note"], "design_ref": e["level_claimed"].get("design_ref", f"DESIGN.md section 5 {pid}")}
json.dump(dict(sorted(cl.items())), open(os.path.join(ROOT, "tools", "claims.json"), "w"), indent=1, ensure_ascii=False)
subprocess.run(["/venv/bin/python", os.path.join(ROOT, "tools", "manifest.py")], check=True)
