#!/venv/bin/python
"""Regenerate the table of `fix:` commits in DESIGN.md (section 14) from /repo's log and the `fixed` entries of the findings files."""
import json, os, glob, re, subprocess
ROOT = os.path.dirname(os.path.dirname(os.path.abspath(__file__)))
log = subprocess.run(["git", "-C", "/repo", "log", "--reverse", "--format=%h\t%s"], capture_output=True, text=True).stdout.splitlines()
fixed = {}
files = [os.path.join(ROOT, "known_findings.json")] + sorted(glob.glob(os.path.join(ROOT, "known_findings.d", "*.json")))
for f in files:
    for e in json.load(open(f)).get("fixed", []):
        if isinstance(e, str):                      # "fixed: property=C07 <sha> <what>"
            m = re.match(r"fixed:\s*property=(\S+)\s+([0-9a-f]{7,})", e)
            if m:
                fixed.setdefault(m.group(2)[:7], set()).add(m.group(1))
            continue
        for c in re.findall(r"[0-9a-f]{7,}", str(e.get("commit", ""))):
            fixed.setdefault(c[:7], set()).add(e.get("property", "?"))
rows = []
for line in log:
    h, _, s = line.partition("\t")
    if not s.startswith("fix:"):
        continue
    props = ", ".join(sorted(fixed.get(h[:7], []))) or "-"
    rows.append(f"| `{h}` | {props} | {s[4:].strip().replace('|', '/')[:230]} |")
table = "| commit | recorded as fixed by | what was repaired |\n|---|---|---|\n" + "\n".join(rows) + "\n"
p = os.path.join(ROOT, "DESIGN.md")
s = open(p).read()
b, e = "<!-- fixes-table:begin -->", "<!-- fixes-table:end -->"
if b not in s:
    marker = "---------------------------------------------------------------------------------------------------\n\n## Appendix A"
    sec = ("---------------------------------------------------------------------------------------------------\n\n## 14. Repairs of genuine defects in `/repo`\n\n"
           "Each row is one unguarded `fix:` commit in `/repo` (minimal, the unedited suite passes with it: 349 baseline-stable tests, later 353-355 as fixes made\n"
           "environment-failing join tests pass). A defect was repaired only after a check reported it on the unchanged tree with a concrete failing input;\n"
           "the failing input is kept as a regression script in `corpus/<ID>/` and the entry under `fixed` in the findings files suppresses nothing.\n"
           "No hooks were installed in `/repo` (the guard name `DATA_ALGEBRA_VERIF` stays reserved).\n\n" + b + "\n" + e + "\n\n")
    s = s.replace(marker, sec + marker)
s = re.sub(re.escape(b) + r".*?" + re.escape(e), lambda m: b + "\n" + table + e, s, flags=re.S)
open(p, "w").write(s)
print(len(rows), "fix commits")
