#!/venv/bin/python
"""Regenerate the table of seeded changes in DESIGN.md (between the markers) from seeded/*/meta.json."""
import json, os, glob, re
ROOT = os.path.dirname(os.path.dirname(os.path.abspath(__file__)))
rows = []
for d in sorted(glob.glob(os.path.join(ROOT, "seeded", "*"))):
    mp = os.path.join(d, "meta.json")
    if not os.path.exists(mp):
        continue
    m = json.load(open(mp))
    name = os.path.basename(d)
    prop = m.get("property")
    prop = ",".join(prop) if isinstance(prop, list) else str(prop)
    origin = "independent agent" if "-m" in name and not name.startswith("selftest") else "builder's self-test"
    needs = str(m.get("needs", "")).replace("|", "/").replace("\n", " ")
    caught = str(m.get("caught_by", m.get("caught", ""))).replace("|", "/").replace("\n", " ")
    rows.append(f"| `{name}` | {prop} | {origin} | {needs[:260]} | {caught[:300]} |")
table = ("| seeded change | property | written by | needs, to manifest | caught by |\n|---|---|---|---|---|\n" + "\n".join(rows) + "\n")
p = os.path.join(ROOT, "DESIGN.md")
s = open(p).read()
b, e = "<!-- seeded-table:begin -->", "<!-- seeded-table:end -->"
if b not in s:
    marker = "---------------------------------------------------------------------------------------------------\n\n## Appendix A"
    sec = ("---------------------------------------------------------------------------------------------------\n\n## 13. Seeded changes and which check catches them\n\n"
           "Every directory under `/verif/seeded/` holds `patch.diff`, a demonstration (`demo.py` for the independent ones), `meta.json` and the\n"
           "output of the check run against the patched tree (`run/`). `<ID>-m<n>` were written by fresh sub-agents that saw only the property\n"
           "text and a scratch worktree (nothing of /verif); each was confirmed by the coordinator in a scratch worktree (demo exits 0 without\n"
           "the patch, non-zero with it; the repository's suite gives the baseline result with it) before being kept. `selftest-<ID>-<n>` are\n"
           "the mutations each check's builder tried. `tools/seeded.py <dir>` re-runs a check against one (in a scratch worktree, never in /repo).\n"
           "Where the first version of a check MISSED a change the entry says so and what was strengthened.\n\n" + b + "\n" + e + "\n\n")
    s = s.replace(marker, sec + marker)
s = re.sub(re.escape(b) + r".*?" + re.escape(e), b + "\n" + table + e, s, flags=re.S)
open(p, "w").write(s)
print(len(rows), "rows")
