#!/venv/bin/python
"""compare a junit xml of the repo's suite with /root/.vp/BASELINE.json stable_pass"""
import json, sys, xml.etree.ElementTree as ET
base = set(json.load(open("/root/.vp/BASELINE.json"))["stable_pass"])
passed = set()
for tc in ET.parse(sys.argv[1]).getroot().iter("testcase"):
    name = tc.get("classname") + "::" + tc.get("name")
    if not any(c.tag in ("failure", "error", "skipped") for c in tc):
        passed.add(name)
missing = sorted(base - passed)
print("baseline", len(base), "passed now", len(passed & base), "missing", missing[:20])
sys.exit(1 if missing else 0)
