import json,sys
P={json.loads(l)['id']:json.loads(l) for l in open('/verif/properties.jsonl')}
i=sys.argv[1]; p=P[i]
print(f"""You are helping to evaluate how sensitive a verification tool is. You will write a deliberately FAULTY change ("seeded defect") to a Python library, for testing purposes only.

Work ONLY inside the scratch git worktree /tmp/mut-{i} (a checkout of the Python library WinVector/data_algebra; package directory data_algebra/, tests in tests/). Do NOT read, list or touch /verif or /repo, and do not look for verification tooling: your change must be independent of it. Run Python as `cd /tmp/mut-{i} && PYTHONPATH=/tmp/mut-{i} PYTHONHASHSEED=0 /venv/bin/python ...` (pandas 3, polars 1.44, sqlite3 3.40 in-process; no network; no PostgreSQL server). Every shell command prints a few conda warning lines first; ignore them.

THE PROPERTY ({i}: {p['title']}):
"{p['statement']}"
Scope: {p['quantifier']['text']}
Where it lives: {json.dumps(p['anchors'].get('mechanism'))}

YOUR TASK: produce a change to the library source (files under data_algebra/ only) that BREAKS this property while (a) the package still imports, (b) the existing test suite still passes exactly as before, and (c) ordinary use does not expose it at once: the failure must need something specific to manifest — a particular multi-step sequence of operations, an unusual input (nulls, duplicates, empty tables, special characters, a particular option combination), a particular shape of pipeline, or two cooperating edits that each look fine alone. Make it look like a plausible refactoring/optimisation mistake a maintainer could make, not sabotage.
Baseline of the unchanged tree: `cd /tmp/mut-{i} && PYTHONPATH=/tmp/mut-{i} /venv/bin/python -m pytest -q -p no:cacheprovider --timeout=900` gives 355 passed, 30 failed (the 30 failures are environmental and pre-existing; takes 4-8 minutes). Your change must give the same 355 passed / same 30 failed: while developing run only the relevant test files, and run the full suite ONCE at the end for each final patch (save the tail of its output).
Also write a DEMONSTRATION: a small standalone program demo.py that uses only the public API, exits with status 0 on the unchanged library and with a non-zero status (assertion failure showing the property violated: e.g. two results that must be equal differ) with your change applied. Verify both directions yourself (save your change with `git diff > p.diff`, then `git checkout -- .` and `git apply p.diff` / `git apply -R p.diff`; NEVER use `git stash`: the stash list is shared with other worktrees of this repository).

Produce ONE seeded defect; prefer a code site and mechanism that is NOT the first one that comes to mind (a less travelled branch, an interaction between two features, a dialect- or backend-specific path), and take at most about 60 minutes in all. Deliver, in /tmp/mut-{i}/deliver/: patch1.diff (output of `git diff` for defect 1 alone, applicable with `git apply` to a clean checkout), demo1.py, notes1.md (which property sentence it breaks; exactly what is needed for it to manifest; the commands you ran and their outcomes incl. the pytest summary line). Finish with the worktree clean (`git checkout -- . ` ; deliver/ is untracked and stays). Your final message: a short summary of each defect (site, trigger, demo outcome with/without, pytest summary).""")
