#!/venv/bin/python
"""Run a property's check against a seeded (deliberately broken) copy of /repo.

  tools/seeded.py <seeded-dir> [--tier quick] [--seed 1]

<seeded-dir> holds patch.diff and meta.json ({"property": "C06", ...}).  The patch is applied in a scratch worktree of
/repo's HEAD (never in /repo itself), the check runs with VERIF_REPO pointing at it, and its output, exit status and replay
files are stored in <seeded-dir>/run/.  The worktree is removed afterwards."""
import json, os, shutil, subprocess, sys, glob

ROOT = os.path.dirname(os.path.dirname(os.path.abspath(__file__)))


def main(argv):
    d = os.path.abspath(argv[0])
    tier, seed = "quick", "1"
    if "--tier" in argv:
        tier = argv[argv.index("--tier") + 1]
    if "--seed" in argv:
        seed = argv[argv.index("--seed") + 1]
    meta = json.load(open(os.path.join(d, "meta.json")))
    props = meta["property"] if isinstance(meta["property"], list) else [meta["property"]]
    if "--prop" in argv:
        props = [argv[argv.index("--prop") + 1]]
    wt = f"/tmp/seed-wt-{os.path.basename(d)}-{os.getpid()}"
    subprocess.run(["git", "-C", "/repo", "worktree", "add", "-q", wt, "HEAD"], check=True)
    out = os.path.join(d, "run")
    os.makedirs(out, exist_ok=True)
    rc_all = {}
    try:
        r = subprocess.run(["git", "-C", wt, "apply", os.path.join(d, "patch.diff")], capture_output=True, text=True)
        if r.returncode != 0:
            print("patch does not apply:", r.stderr)
            return 2
        for prop in props:
            env = dict(os.environ, VERIF_REPO=wt, VERIF_SEED=seed, VERIF_TIER=tier, VERIF_EVIDENCE_DIR=os.path.join(out, "evidence"))
            also = json.load(open(os.path.join(ROOT, "tools", "claims.json"))).get(prop, {}).get("also") or []   # the registered command
            if "--no-also" in argv:
                also = []
            p = subprocess.run([os.path.join(ROOT, "check"), prop, "--tier", tier] + (["--also", ",".join(also)] if also else []),
                               cwd=ROOT, env=env, capture_output=True, text=True)
            txt = "\n".join(l for l in (p.stdout + p.stderr).splitlines() if "onda" not in l and "Caused by" not in l)
            open(os.path.join(out, f"{prop}-{tier}-seed{seed}.txt"), "w").write(txt + f"\nexit={p.returncode}\n")
            for f in glob.glob(os.path.join(ROOT, "replays", f"{prop}-*.json")):
                shutil.move(f, os.path.join(out, os.path.basename(f)))
            lines = [l for l in txt.splitlines() if l.startswith("VIOLATION") or l.startswith("[")]
            print("\n".join(lines[-4:]), f"exit={p.returncode}")
            rc_all[prop] = p.returncode
    finally:
        subprocess.run(["git", "-C", "/repo", "worktree", "remove", "--force", wt])
    return 0 if all(v == 1 for v in rc_all.values()) else 1


if __name__ == "__main__":
    sys.exit(main(sys.argv[1:]))
