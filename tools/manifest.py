#!/venv/bin/python
"""Regenerate /verif/MANIFEST.json from the table below (keeps it schema-valid at all times)."""
import json, os
ROOT = os.path.dirname(os.path.dirname(os.path.abspath(__file__)))
props = [json.loads(l) for l in open(os.path.join(ROOT, "properties.jsonl"))]

# id -> (technique, level text, level note, design ref)
CLAIMED = {
 "C24": ("Coq proof over Gallina regenerated from OrderedSet.py by tools/py2v (refinement to an abstract first-insertion-order list machine, induction over operation histories)",
         "Unbounded theorems (Props/C24.v, 13 statements, all `Closed under the global context`): after any history of add/discard/update the generated code's iteration is duplicate-free, has exactly the members of a plain set, and keeps first-insertion order; constructor, copy, union, ordered_union/intersect/diff are characterised by first-occurrence lists. The model is regenerated from the source on every run, so a source change re-checks the proofs; a differential run of the same histories on the real class and on the Gallina (vm_compute) and a plain-set oracle look for the failing input.",
         "Trusted: Coq kernel, vm_compute, tools/py2v.py, OrderedDict modelled as insertion-ordered association list; collections.abc mix-in operators are stdlib (oracle only).",
         "DESIGN.md section 5 C24"),
 "C23": ("Coq proof (invariant by induction over the edge list) about a hand-written executable Gallina model of connected_components.py; model tied to the code by differential correspondence evaluated inside Coq",
         "Unbounded theorems (Props/C23.v): for every edge list over any decidable totally ordered vertex type the model returns one label per edge, the label is connected to the edge's endpoints and is <= every vertex of that component, and two edges share a label iff they are in one component. The Python uses aliased mutable Component objects, so the model is hand-written (store of cells) and every run compares it with the real function on thousands of random edge lists (thorough: plus all edge lists with <=4 edges over 4 vertices); a BFS oracle checks the real function directly.",
         "Trusted: Coq kernel, vm_compute, the hand model's fidelity (sampled by correspondence on every run), order-isomorphic integer encoding of vertices in the harness; the pandas_base impl_map use of the function is oracle-only.",
         "DESIGN.md section 5 C23"),
 "C06": ("Coq proof about try_to_merge_ops regenerated from data_ops_utils.py by tools/py2v (merged extend = sequential extends, for every assignment pair and every column-local evaluation function); differential oracles for the other simplifications",
         "Unbounded theorems (Props/C06.v): whenever the regenerated try_to_merge_ops merges two extends, the merged step denotes column for column the same frame as the two steps applied in turn, and assigns exactly their columns -- for all assignment dictionaries (overwriting/repeated assignments included), all frames and all column functions that look only at the expression's columns and the window columns. A source change re-checks the proof (it was unprovable until the fix 6dc26b4). Order_rows elimination and select/drop collapsing are exercised by two implementation-level oracles on every run: chained vs step-by-step evaluation on Pandas, and accept/reject agreement between a simplified prefix and a bare table description (partial: no theorem yet for those two simplifications).",
         "Trusted: Coq kernel, vm_compute, tools/py2v.py, Model/Extend.v as the meaning of extend, get_columns_used as union of column sets (correspondence-checked). Partial: order_rows elimination / select-collapse are oracle-only.",
         "DESIGN.md section 5 C06"),
 "C20": ("Coq proofs about hand-written state-machine models of DataModelSpace and DBSpace (step lemmas from every state + invariant by induction over histories + a refuted statement with witness); models tied to the code by differential correspondence of random histories evaluated in Coq",
         "Unbounded theorems (Props/C20.v, 15): for both spaces, from every (invariant-satisfying) state: a successful insert/execute is exactly a map write of the result computed on the current contents, a write with allow_overwrite=False on an existing key fails and changes nothing, an automatic key is never in use (pigeonhole over injective names) so it never replaces an entry, remove/retrieve/keys reflect the map, failed operations change nothing -- for DBSpace only outside the listed finding, whose refutation witness is itself a theorem. The models are hand-written; every run replays hundreds of random histories (user keys include da_temp_<n>) on the real classes (DBSpace on SQLite) and on the models inside Coq, and a plain-dict oracle checks the real classes directly.",
         "Trusted: Coq kernel, vm_compute, fidelity of Model/DataSpace.v (sampled every run), injectivity of f'da_temp_{n}', SQLite behind DBSpace; close()/model_table() not modelled.",
         "DESIGN.md section 5 C20"),
 "C25": ("Coq proofs about a hand-written heap model of eval_cache.py (key injectivity from hash injectivity; refinement of the copy-on-store/copy-on-get cache to a map of frame values by induction over histories); model tied to the code by differential correspondence of random histories evaluated in Coq",
         "Unbounded theorems (Props/C25.v, 6): keys are injective in dialect, SQL and data map (given that the frame hash separates frames -- a stated hypothesis) and independent of insertion order; for every history in which the caller mutates only frames it holds, the cache with private copies yields operation-by-operation the outputs of a plain map from keys to frame VALUES (so mutating a returned copy or the stored frame never changes the cache); lookups succeed exactly after a store under an equal key. Every run replays random new/mutate/store/get/read histories on the real ResultCache and on the model inside Coq, runs a dict oracle, and probes the hash hypothesis on all pairs of 18 frames differing in one value, column name, shape, row order or dtype.",
         "Trusted: Coq kernel, vm_compute, fidelity of Model/Cache.v (sampled), hash_data_frame separates frames (hypothesis; one listed finding: bool vs int), list.sort canonical, pandas copy()/equals().",
         "DESIGN.md section 5 C25"),
 "C22": ("Coq proofs relating an executable hand model of data_schema.py to a declarative reading of 'schema violation' over an abstract type universe (iff theorems, switch transparency, example-value normalisation, one refuted statement); model tied to the code by differential correspondence evaluated in Coq",
         "Unbounded theorems (Props/C22.v, 10): over every universe of types with an isinstance relation, the checker rejects a value iff it violates its specification (missing column, non-frame, non-null cell or scalar of none of the declared types), check_args raises TypeError iff a declared argument is missing or violating and never raises anything else, the wrapper returns the function's own result unchanged iff nothing violates, with the switch off it never raises, and example values (alone or inside sets) declare their own types. Every run compares the model with the real decorator on thousands of random specification x call pairs inside Coq and against an independent oracle written from the property text; two defects found this way were fixed in /repo, one is listed.",
         "Trusted: Coq kernel, vm_compute, fidelity of Model/Schema.v (0 disagreements in the sampled correspondence), isinstance over {int,float,str,bool} and pandas iteration/isnull semantics in the harness.",
         "DESIGN.md section 5 C22"),
}
NOT_YET = "check not built yet (work in progress; see DESIGN.md section 8 build order)"

m = {"version": 1, "setup_cmd": "./setup.sh",
     "hooks": {"guard": "DATA_ALGEBRA_VERIF", "enable": "no hooks are installed in /repo; checks import /repo's working tree with PYTHONPATH=/repo PYTHONHASHSEED=0",
               "baseline_off_cmd": "cd /repo && /venv/bin/python -m pytest -ra -q -p no:cacheprovider --timeout=900", "source_commits": [], "add_only": True},
     "engines": [{"name": "coq", "path": "/verif/coq", "serves_properties": sorted(CLAIMED), "kind_free_text": "Coq 8.16.1 development: Base (PyRT), Gen (regenerated from /repo by tools/py2v.py), Model, Proofs, Props"},
                 {"name": "harness", "path": "/verif/harness", "serves_properties": sorted(CLAIMED), "kind_free_text": "Python driver: regeneration, build, audit, correspondence case files evaluated in Coq, implementation-level oracles, evidence"}],
     "checks": [], "notes": "See DESIGN.md. ./check <ID> --tier quick|thorough; replay with ./check <ID> --replay <file>.", "not_applicable": []}
for p in props:
    i = p["id"]
    if i in CLAIMED:
        tech, text, note, ref = CLAIMED[i]
        m["checks"].append({"property_id": i, "quick_cmd": f"./check {i} --tier quick", "thorough_cmd": f"./check {i} --tier thorough",
                            "evidence_file": f"/verif/evidence/{i}.json", "replay_cmd_template": f"./check {i} --replay {{path}}", "engine": "coq",
                            "level_claimed": {"category": "proof", "text": text, "design_ref": ref}, "level_note": note, "technique": tech})
    else:
        m["not_applicable"].append({"property_id": i, "reason": NOT_YET})
json.dump(m, open(os.path.join(ROOT, "MANIFEST.json"), "w"), indent=1)
print("claimed", sorted(CLAIMED), "pending", len(m["not_applicable"]))
