#!/venv/bin/python
"""Regenerate /verif/MANIFEST.json from the table below (keeps it schema-valid at all times)."""
import json, os
ROOT = os.path.dirname(os.path.dirname(os.path.abspath(__file__)))
props = [json.loads(l) for l in open(os.path.join(ROOT, "properties.jsonl"))]

# id -> (technique, level text, level note, design ref)
RAW = json.load(open(os.path.join(ROOT, "tools", "claims.json")))
CLAIMED = {k: (v["technique"], v["text"], v["note"], v["design_ref"]) for k, v in RAW.items()}
# auxiliary engines (deepenings shared by several properties) run inside a property's check: claims.json field "also": ["PEXEC", ...]
ALSO = {k: (" --also " + ",".join(v["also"]) if v.get("also") else "") for k, v in RAW.items()}
NOT_YET = "check not built yet (work in progress; see DESIGN.md section 8 build order)"

m = {"version": 1, "setup_cmd": "./setup.sh",
     "hooks": {"guard": "DATA_ALGEBRA_VERIF", "enable": "no hooks are installed in /repo; checks import /repo's working tree with PYTHONPATH=/repo PYTHONHASHSEED=0",
               "baseline_off_cmd": "cd /repo && /venv/bin/python -m pytest -ra -q -p no:cacheprovider --timeout=900", "source_commits": [], "add_only": True},
     "engines": [{"name": "coq", "path": "/verif/coq", "serves_properties": sorted(CLAIMED), "kind_free_text": "Coq 8.16.1 development: Base (PyRT), Gen (regenerated from /repo by tools/py2v.py), Model, Proofs, Props"},
                 {"name": "harness", "path": "/verif/harness", "serves_properties": sorted(CLAIMED), "kind_free_text": "Python driver: regeneration, build, audit, correspondence case files evaluated in Coq, implementation-level oracles, evidence"}],
     "checks": [], "notes": "See DESIGN.md. ./check <ID> --tier quick|thorough; replay with ./check <ID> --replay <file>.", "not_applicable": []}
for p in props:
    i = p["id"]
    if i in CLAIMED:
        tech, text, note, ref = CLAIMED[i]
        m["checks"].append({"property_id": i, "quick_cmd": f"./check {i} --tier quick{ALSO[i]}", "thorough_cmd": f"./check {i} --tier thorough{ALSO[i]}",
                            "evidence_file": f"/verif/evidence/{i}.json", "replay_cmd_template": f"./check {i} --replay {{path}}", "engine": "coq",
                            "level_claimed": {"category": "proof", "text": text, "design_ref": ref}, "level_note": note, "technique": tech})
    else:
        m["not_applicable"].append({"property_id": i, "reason": NOT_YET})
json.dump(m, open(os.path.join(ROOT, "MANIFEST.json"), "w"), indent=1)
print("claimed", sorted(CLAIMED), "pending", len(m["not_applicable"]))
